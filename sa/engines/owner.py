"""
E8 ``owner`` -- who-may-write and pairing rules.
"""
import ast

from ..model import dotted, unparse, walk_local

MUTATORS = {'append', 'pop', 'remove', 'insert', 'sort', 'extend', 'clear', 'reverse', 'add', 'discard', 'update',
            'fill', 'put', 'itemset', 'resize', 'setdefault', 'popitem', '__setitem__', '__delitem__'}


def _root_attr(node):
    """for an expression like  R.attr[...][...]  /  R.attr  return (receiver_text, attr) of the *first*
    attribute applied to a plain receiver chain; None otherwise."""
    n = node
    while isinstance(n, ast.Subscript):
        n = n.value
    if isinstance(n, ast.Attribute):
        return unparse(n.value), n.attr
    return None


def attr_writes(fn, attrs, track_aliases=True):
    """yield (node, receiver, attr, kind) for every write inside ``fn`` (nested defs excluded) to an
    attribute named in ``attrs``:
      kind 'rebind'    R.attr = v  / R.attr += v
      kind 'store'     R.attr[...] = v / R.attr[...] += v / del R.attr[...]
      kind 'mutate'    R.attr[...].append(...) etc.
      kind 'alias-*'   the same through a local name bound to R.attr or R.attr[...]
      kind 'setattr'   setattr(R, <name>, v) where name may be one of attrs (reported with attr='*' when unknown)
    """
    aliases = {}  # local name -> (receiver, attr)
    nodes = list(walk_local(fn))
    if track_aliases:
        for n in nodes:
            if isinstance(n, ast.Assign) and len(n.targets) == 1:
                pairs = []
                t, v = n.targets[0], n.value
                if isinstance(t, ast.Tuple) and isinstance(v, ast.Tuple) and len(t.elts) == len(v.elts):
                    pairs = list(zip(t.elts, v.elts))
                else:
                    pairs = [(t, v)]
                for tt, vv in pairs:
                    if isinstance(tt, ast.Name):
                        ra = _root_attr(vv)
                        if ra and ra[1] in attrs and not isinstance(vv, ast.Call):
                            aliases[tt.id] = ra
    for n in nodes:
        targets = []
        if isinstance(n, ast.Assign):
            for t in n.targets:
                targets.extend(t.elts if isinstance(t, (ast.Tuple, ast.List)) else [t])
        elif isinstance(n, (ast.AugAssign, ast.AnnAssign)):
            targets = [n.target]
        elif isinstance(n, ast.Delete):
            targets = list(n.targets)
        for t in targets:
            if isinstance(t, ast.Attribute) and t.attr in attrs:
                yield n, unparse(t.value), t.attr, 'rebind'
            elif isinstance(t, ast.Subscript):
                ra = _root_attr(t)
                if ra and ra[1] in attrs:
                    yield n, ra[0], ra[1], 'store'
                else:
                    base = t
                    while isinstance(base, ast.Subscript):
                        base = base.value
                    if isinstance(base, ast.Name) and base.id in aliases:
                        yield n, aliases[base.id][0], aliases[base.id][1], 'alias-store'
            elif isinstance(t, ast.Name) and isinstance(n, ast.AugAssign) and t.id in aliases:
                yield n, aliases[t.id][0], aliases[t.id][1], 'alias-augassign'
        if isinstance(n, ast.Call) and isinstance(n.func, ast.Attribute) and n.func.attr in MUTATORS:
            ra = _root_attr(n.func.value)
            if ra and ra[1] in attrs:
                yield n, ra[0], ra[1], 'mutate'
            else:
                base = n.func.value
                while isinstance(base, ast.Subscript):
                    base = base.value
                if isinstance(base, ast.Name) and base.id in aliases:
                    yield n, aliases[base.id][0], aliases[base.id][1], 'alias-mutate'
        if isinstance(n, ast.Call) and dotted(n.func) == 'setattr' and len(n.args) >= 2:
            a = n.args[1]
            if isinstance(a, ast.Constant) and a.value in attrs:
                yield n, unparse(n.args[0]), a.value, 'setattr'
            elif not isinstance(a, ast.Constant):
                yield n, unparse(n.args[0]), '*', 'setattr'


def self_attr_assigned(fn, selfname='self'):
    """set of attribute names assigned as  self.X = ...  (incl. tuple targets) in fn."""
    out = {}
    for n in walk_local(fn):
        ts = []
        if isinstance(n, ast.Assign):
            for t in n.targets:
                ts.extend(t.elts if isinstance(t, (ast.Tuple, ast.List)) else [t])
        elif isinstance(n, (ast.AugAssign, ast.AnnAssign)):
            ts = [n.target]
        for t in ts:
            if isinstance(t, ast.Attribute) and isinstance(t.value, ast.Name) and t.value.id == selfname:
                out.setdefault(t.attr, n)
    return out


def reversal_pairs(fn, container_pred):
    """find  X.append(((a, b), v))  and its partner  X.append(((b, a), -v))  in the same block.
    yield (append_call, partner_or_None) for every 'forward' append (one whose value is not a negation)."""
    appends = []
    for n in walk_local(fn):
        if isinstance(n, ast.Call) and isinstance(n.func, ast.Attribute) and n.func.attr == 'append' \
                and len(n.args) == 1 and container_pred(n.func.value):
            a = n.args[0]
            if isinstance(a, ast.Tuple) and len(a.elts) == 2 and isinstance(a.elts[0], ast.Tuple) \
                    and len(a.elts[0].elts) == 2:
                appends.append(n)
    return appends
