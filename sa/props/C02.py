"""
C02 -- interstitial diffusivity equals the exact long-time diffusivity (structural clauses).

Not decided: the value of the correlation correction (numerical).  Decided:
  * exchange: the symmetrised rate (Interstitial.symmratelist and its Green-function sibling SymmRates) is invariant
    under swapping the endpoints of the jump; the plain rate depends on the initial site only;
  * siblings: the statements that assemble the symmetrised rate matrix, the bias vector and the uncorrelated
    diffusivity are identical (after canonicalisation) in diffusivity / elastodiffusion / losstensors, their loops zip
    the jump network with the rate lists in the same order, and the correlation correction is the same formula in
    diffusivity and elastodiffusion; the rate and escape-rate formulas of the Green-function calculator equal the
    interstitial calculator's after renaming;
  * the two bias-solver branches are both assigned, selected by the invertibility flag, pseudo-inverse on the
    non-invertible branch, same sign, no absolute tolerance;
  * the anchored routines are dimension-generic.
"""
import ast

from ..model import AnalysisError, dotted, unparse, walk_local
from ..engines import exchange
from ..engines.linform import canon, rename, swap_sigma
from ._common import dim_generic
from .C04 import _solver

ASSEMBLY_ROOTS = ('omega_ij', 'bias_i', 'D0')


def run(model, rep, tier):
    rep.explanation = __doc__.strip()
    rep.not_decided = 'the numerical value of the diffusivity and of the bias-correction term'
    rep.rule('exchange-symmetric', 'symmetrised rate element is invariant under swapping the jump endpoints')
    rep.rule('initial-site-only', 'the (unsymmetrised) rate of a jump i->j depends on site i, not on j')
    rep.rule('sibling-assembly', 'assembly statements agree between diffusivity / elastodiffusion / losstensors')
    rep.rule('sibling-formula', 'Green-function rate formulas equal the interstitial ones after renaming')
    rep.rule('scale-homogeneous-solver', 'bias solvers: both branches, right selection, same sign, no absolute tolerance')
    oc = model.mod('OnsagerCalc')
    ci = model.cls('OnsagerCalc', 'Interstitial')
    gf = model.mod('GFcalc')
    # ---- exchange
    sym = ci.methods.get('symmratelist')
    rl = ci.methods.get('ratelist')
    if sym is None or rl is None:
        raise AnalysisError('anchor vanished: Interstitial.symmratelist / ratelist')
    elt_s, pair_s = _rate_element(sym)
    ok, a, b = exchange.symmetric_expr(elt_s, swap_sigma([pair_s]))
    rep.ob('exchange-symmetric', oc, elt_s, 'Interstitial.symmratelist element %s under %s<->%s' % (unparse(elt_s), *pair_s), ok,
           '' if ok else 'omega_ij[i,j] != omega_ij[j,i]: the symmetrised rate matrix is not symmetric for non-uniform energies',
           engine='exchange', qual='Interstitial.symmratelist')
    elt_r, pair_r = _rate_element(rl)
    uses_j = pair_r[1] in exchange.names_in(elt_r)
    rep.ob('initial-site-only', oc, elt_r, 'Interstitial.ratelist element %s' % unparse(elt_r), not uses_j,
           '' if not uses_j else 'the escape rate from i uses the final site\'s energy or prefactor', engine='exchange',
           qual='Interstitial.ratelist')
    gsym = model.func('GFcalc', 'GFCrystalcalc.SymmRates')
    elt_g, pair_g = _rate_element(gsym)
    ok, a, b = exchange.symmetric_expr(elt_g, swap_sigma([pair_g]))
    rep.ob('exchange-symmetric', gf, elt_g, 'GFCrystalcalc.SymmRates element %s under %s<->%s' % (unparse(elt_g), *pair_g), ok,
           '' if ok else 'Green-function symmetrised rate is not symmetric in the two Wyckoff sets', engine='exchange',
           qual='GFCrystalcalc.SymmRates')
    # ---- sibling formulas across modules
    sig = {pair_g[0]: pair_s[0], pair_g[1]: pair_s[1], 'betaene': 'siteene', 'pre': 'sitepre'}
    same = canon(rename(elt_g, sig)) == canon(elt_s)
    rep.ob('sibling-formula', gf, elt_g, 'SymmRates element == symmratelist element after (%s)' % ', '.join('%s->%s' % kv for kv in sig.items()),
           same, '' if same else 'the two calculators symmetrise the rate differently: %s vs %s' % (canon(rename(elt_g, sig)), canon(elt_s)),
           engine='siblings', qual='GFCrystalcalc.SymmRates')
    setr = model.func('GFcalc', 'GFCrystalcalc.SetRates')
    esc = None
    for n in walk_local(setr):
        if isinstance(n, ast.GeneratorExp) and isinstance(getattr(n, '_parent', None), ast.Call) and dotted(n._parent.func) == 'sum' \
                and any(isinstance(c, ast.Call) and (dotted(c.func) or '').endswith('exp') for c in ast.walk(n.elt)) \
                and isinstance(n.generators[0].target, ast.Tuple):
            esc = n
    if esc is None:
        raise AnalysisError('GFCrystalcalc.SetRates: escape-rate sum not found')
    # self.SEjumps[i, J] * pretrans / pre[wi] * np.exp(betaene[wi] - BET)  vs  pT * np.exp(siteene[i] - beT) / sitepre[i]
    tnames = [unparse(t) for t in esc.generators[0].target.elts]
    sig2 = {tnames[1]: 'pT', tnames[2]: 'beT', 'betaene': 'siteene', 'pre': 'sitepre', 'wi': pair_r[0]}
    body = esc.elt
    # strip the multiplicity factor
    mult = [x for x in ast.walk(body) if isinstance(x, ast.Subscript) and unparse(x.value) == 'self.SEjumps']
    stripped = unparse(body).replace(unparse(mult[0]) + ' * ', '') if mult else unparse(body)
    g2 = canon(rename(ast.parse(stripped, mode='eval').body, sig2))
    same = g2 == canon(elt_r)
    rep.ob('sibling-formula', gf, esc, 'SetRates escape term (without multiplicity) == ratelist element', same,
           '' if same else 'escape rates differ between the calculators: %s vs %s' % (g2, canon(elt_r)), engine='siblings',
           qual='GFCrystalcalc.SetRates')
    # ---- sibling assembly
    funs = {}
    for name in ('diffusivity', 'elastodiffusion', 'losstensors'):
        fn = ci.methods.get(name)
        if fn is None:
            raise AnalysisError('anchor vanished: Interstitial.%s' % name)
        funs[name] = fn
    per = {}
    for name, fn in funs.items():
        d = {}
        for n in walk_local(fn):
            if isinstance(n, ast.AugAssign):
                root = n.target
                while isinstance(root, ast.Subscript):
                    root = root.value
                if isinstance(root, ast.Name) and root.id in ASSEMBLY_ROOTS and _in_double_loop(n, fn):
                    d.setdefault(root.id, set()).update(exchange.stmt_canon(n))
        per[name] = d
    ref = per['diffusivity']
    npairs = 0
    for root in ASSEMBLY_ROOTS:
        if root not in ref:
            raise AnalysisError('Interstitial.diffusivity: assembly of %s not found' % root)
        for other in ('elastodiffusion', 'losstensors'):
            if root not in per[other]:
                continue
            npairs += 1
            ok = per[other][root] == ref[root]
            rep.ob('sibling-assembly', oc, funs[other], '%s: statements updating %s equal those of diffusivity (%d)' % (other, root, len(ref[root])),
                   ok, '' if ok else 'differs: only in diffusivity %s ; only in %s %s' % (sorted(ref[root] - per[other][root]), other,
                                                                                     sorted(per[other][root] - ref[root])),
                   engine='siblings', qual='Interstitial.' + other)
    rep.floor('sibling assembly comparisons', npairs, 4)
    # loop headers: zip(self.jumpnetwork, ratelist, symmratelist, ...) and zip(transitionset, rates, symmrates, ...)
    heads = {}
    for name, fn in funs.items():
        loops = [n for n in walk_local(fn) if isinstance(n, ast.For) and isinstance(n.iter, ast.Call) and dotted(n.iter.func) == 'zip'
                 and n.iter.args and unparse(n.iter.args[0]) == 'self.jumpnetwork']
        if len(loops) != 1:
            raise AnalysisError('Interstitial.%s: main loop over the jump network not found' % name)
        outer = loops[0]
        inner = [n for n in outer.body if isinstance(n, ast.For)]
        if len(inner) != 1:
            raise AnalysisError('Interstitial.%s: inner loop not found' % name)
        heads[name] = (_zip_pairs(outer)[:3], _zip_pairs(inner[0])[:3])
    for other in ('elastodiffusion', 'losstensors'):
        ok = heads[other] == heads['diffusivity']
        rep.ob('sibling-assembly', oc, funs[other], '%s: loop bindings %s' % (other, heads[other]), ok,
               '' if ok else 'rates and symmetrised rates are bound differently than in diffusivity %s' % (heads['diffusivity'],),
               engine='siblings', qual='Interstitial.' + other)
    want = ([('transitionset', 'self.jumpnetwork'), ('rates', 'ratelist'), ('symmrates', 'symmratelist')])
    okb = [v for _, v in heads['diffusivity'][0]] == ['self.jumpnetwork', 'ratelist', 'symmratelist']
    # inner loop must draw rate from the variable bound to ratelist and symmrate from the one bound to symmratelist
    o, i = heads['diffusivity']
    okb = okb and [v for _, v in i] == [o[0][0], o[1][0], o[2][0]]
    rep.ob('sibling-assembly', oc, funs['diffusivity'], 'diffusivity: outer %s inner %s' % (o, i), okb,
           '' if okb else 'plain and symmetrised rates are exchanged in the loop bindings', engine='siblings',
           qual='Interstitial.diffusivity')
    # preamble: rho / sqrtrho / ratelist / symmratelist
    pre = {}
    for name, fn in funs.items():
        d = {}
        for st in fn.body:
            if isinstance(st, ast.Assign) and isinstance(st.targets[0], ast.Name) and st.targets[0].id in ('rho', 'sqrtrho', 'ratelist', 'symmratelist'):
                d[st.targets[0].id] = canon(st.value)
        pre[name] = d
    for other in ('elastodiffusion', 'losstensors'):
        ok = pre[other] == pre['diffusivity'] and len(pre[other]) == 4
        rep.ob('sibling-assembly', oc, funs[other], '%s: rho/sqrtrho/ratelist/symmratelist preamble equals diffusivity' % other, ok,
               '' if ok else 'probabilities or rates are prepared differently: %s' % pre[other], engine='siblings',
               qual='Interstitial.' + other)
    # correction term
    corr = {}
    for name in ('diffusivity', 'elastodiffusion'):
        for n in walk_local(funs[name]):
            if isinstance(n, (ast.Assign, ast.AugAssign)) and 'self.VV, bias_v), gamma_v' in unparse(n.value).replace('\n', ''):
                tgt = unparse(n.targets[0] if isinstance(n, ast.Assign) else n.target)
                if tgt in ('Dcorrection', 'D0'):
                    sign = '-' if isinstance(n, ast.AugAssign) and isinstance(n.op, ast.Sub) else '+'
                    corr[name] = sign + canon(n.value)
        gam = [canon(n.value) for n in walk_local(funs[name]) if isinstance(n, ast.Assign) and unparse(n.targets[0]) == 'gamma_v']
        corr[name + ':gamma'] = gam
    ok = corr.get('diffusivity') is not None and corr.get('diffusivity') == corr.get('elastodiffusion') \
        and corr['diffusivity:gamma'] == corr['elastodiffusion:gamma'] == ['self.bias_solver(omega_v, bias_v)']
    rep.ob('sibling-assembly', oc, funs['elastodiffusion'], 'correlation correction: %s with gamma_v = %s' % (corr.get('diffusivity'), corr['diffusivity:gamma']),
           ok, '' if ok else 'the bias correction is a different formula in elastodiffusion: %s' % corr.get('elastodiffusion'),
           engine='siblings', qual='Interstitial.elastodiffusion')
    # the corrected diffusivity is returned on both CalcDeriv branches
    rets = [unparse(n.value) for n in walk_local(funs['diffusivity']) if isinstance(n, ast.Return)]
    ok = len(rets) == 2 and all(r.startswith('D0 + Dcorrection') or r.startswith('(D0 + Dcorrection') for r in rets)
    rep.ob('sibling-assembly', oc, funs['diffusivity'], 'diffusivity returns D0 + Dcorrection on both CalcDeriv branches: %s' % rets, ok,
           '' if ok else 'the correlation correction is dropped on one branch', engine='siblings', qual='Interstitial.diffusivity')
    _solver(model, rep)
    dim_generic(model, rep, [('OnsagerCalc', 'Interstitial.'), ('GFcalc', 'GFCrystalcalc.Diffusivity'), ('crystal', 'Crystal.FullVectorBasis')],
                min_functions=15)


def _rate_element(fn):
    """innermost element expression of the nested list comprehension returned, and its (i, j) pair names."""
    rets = [n for n in walk_local(fn) if isinstance(n, ast.Return)]
    if len(rets) != 1:
        raise AnalysisError('%s: single return expected' % fn.name)
    e = rets[0].value
    if isinstance(e, ast.Call) and e.args:
        e = e.args[0]
    pair = None
    while isinstance(e, (ast.ListComp, ast.GeneratorExp)):
        for g in e.generators:
            for t in ast.walk(g.target):
                if isinstance(t, ast.Tuple) and len(t.elts) == 2 and all(isinstance(x, ast.Name) for x in t.elts):
                    pair = pair or (t.elts[0].id, t.elts[1].id)
        e = e.elt
    if pair is None:
        raise AnalysisError('%s: endpoint pair not found' % fn.name)
    return e, pair


def _in_double_loop(n, fn):
    depth = 0
    p = getattr(n, '_parent', None)
    while p is not None and p is not fn:
        if isinstance(p, ast.For):
            depth += 1
        p = getattr(p, '_parent', None)
    return depth >= 2


def _zip_pairs(loop):
    ts = loop.target.elts if isinstance(loop.target, ast.Tuple) else [loop.target]
    return [(unparse(t), unparse(a)) for t, a in zip(ts, loop.iter.args)]


OC = 'onsager/OnsagerCalc.py'
BREAKERS = [
    (OC, "np.sqrt(sitepre[i] * sitepre[j])", "np.sqrt(sitepre[i] * sitepre[i])", 'exchange-symmetric'),
    (OC, "                D0 += 0.5 * np.outer(dx, dx) * rho[i] * rate\n                Dp +=", "                D0 += np.outer(dx, dx) * rho[i] * rate\n                Dp +=",
     'sibling-assembly'),
    (OC, "return [[pT * np.exp(siteene[i] - beT) / sitepre[i]", "return [[pT * np.exp(siteene[j] - beT) / sitepre[j]", 'initial-site-only'),
    (OC, "        for transitionset, rates, symmrates in zip(self.jumpnetwork, ratelist, symmratelist):",
     "        for transitionset, rates, symmrates in zip(self.jumpnetwork, symmratelist, ratelist):", 'sibling-assembly'),
    (OC, "            self.bias_solver = lambda omega, b: -solve(-omega, b, assume_a='pos')", "            self.bias_solver = lambda omega, b: solve(-omega, b, assume_a='pos')",
     'scale-homogeneous-solver'),
    ('onsager/GFcalc.py', "pT * np.exp(0.5 * betaene[w0] + 0.5 * betaene[w1] - beT)", "pT * np.exp(betaene[w0] - beT)", 'exchange-symmetric'),
    ('onsager/GFcalc.py', "pretrans / pre[wi] * np.exp(betaene[wi] - BET)", "pretrans * np.exp(betaene[wi] - BET)", 'sibling-formula'),
    (OC, "            D0 += np.dot(np.dot(self.VV, bias_v), gamma_v)", "            D0 -= np.dot(np.dot(self.VV, bias_v), gamma_v)", None),
]
NEUTRALS = [
    (OC, "                bias_i[i] += sqrtrho[i] * rate * dx\n                biasP_i", "                bias_i[i] += rate * dx * sqrtrho[i]\n                biasP_i"),
]
