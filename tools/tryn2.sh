#!/bin/bash
# usage: tools/tryn2.sh M1 ...  -- build /tmp/nw2/<M> from /tmp/neutral2/<M>/refactor.diff and run every claimed check on it (must be silent)
for m in "$@"; do
  t=/tmp/nw2/$m
  if [ ! -d $t ]; then mkdir -p $t && git -C /repo archive HEAD | tar -x -C $t && ( cd $t && patch -s -p1 < $( [ -f /verif/neutral/$m/refactor.diff ] && echo /verif/neutral/$m/refactor.diff || echo /tmp/neutral2/$m/refactor.diff ) ) || { echo "cannot build $t"; continue; }; fi
  cd /verif
  for p in $(jq -r '.checks[].property_id' /verif/MANIFEST.json); do
    ( out=$(ONSAGER_REPO=$t SA_NOWRITE=1 /venv/bin/python -m sa.cli check $p --tier quick 2>&1)
      echo "$out" | grep -A1 "^VIOLATION\|^ANALYSIS-ERROR" | grep -v "^VIOLATION\|^--" | cut -c1-${W:-330} | sed "s/^/$m $p: /" ) &
  done
  wait
  echo "[$m done]"
done
