"""
E9 ``bounds`` -- guard / extent agreement decided on linear forms over symbolic atoms.
"""
import ast
from fractions import Fraction

from ..model import AnalysisError, unparse, walk_local
from .linform import linform, lin_sub, rename, clone


def _one(form, delta):
    out = dict(form)
    out[''] = out.get('', 0) + delta
    if out[''] == 0:
        del out['']
    return out


def accepted_interval(test, var, atom=None):
    """for a *rejecting* condition (the branch raises) return (lo, hi): the closed interval of
    integer values of ``var`` that pass, as linear forms; None when the shape is not recognised."""
    lo = hi = None

    def cmp_one(left, op, right):
        nonlocal lo, hi
        l, r = unparse(left), unparse(right)
        if l == var:  # var OP expr  (rejecting)
            f = linform(right, atom)
            if isinstance(op, ast.Lt):
                lo = f  # rejects var < A  -> accepts var >= A
            elif isinstance(op, ast.LtE):
                lo = _one(f, 1)
            elif isinstance(op, ast.Gt):
                hi = f
            elif isinstance(op, ast.GtE):
                hi = _one(f, -1)
            else:
                return False
            return True
        if r == var:  # expr OP var
            f = linform(left, atom)
            if isinstance(op, ast.Gt):
                lo = f  # rejects A > var
            elif isinstance(op, ast.GtE):
                lo = _one(f, 1)
            elif isinstance(op, ast.Lt):
                hi = f
            elif isinstance(op, ast.LtE):
                hi = _one(f, -1)
            else:
                return False
            return True
        return False

    if isinstance(test, ast.BoolOp) and isinstance(test.op, ast.Or):
        for v in test.values:
            if not (isinstance(v, ast.Compare) and len(v.ops) == 1 and cmp_one(v.left, v.ops[0], v.comparators[0])):
                return None
        return lo, hi
    if isinstance(test, ast.UnaryOp) and isinstance(test.op, ast.Not) and isinstance(test.operand, ast.Compare):
        c = test.operand
        if len(c.ops) == 2 and unparse(c.comparators[0]) == var:
            # not (A <= var <= B)
            a, b = linform(c.left, atom), linform(c.comparators[1], atom)
            lo = a if isinstance(c.ops[0], ast.LtE) else _one(a, 1) if isinstance(c.ops[0], ast.Lt) else None
            hi = b if isinstance(c.ops[1], ast.LtE) else _one(b, -1) if isinstance(c.ops[1], ast.Lt) else None
            if lo is None or hi is None:
                return None
            return lo, hi
    if isinstance(test, ast.Compare) and len(test.ops) == 1:
        if cmp_one(test.left, test.ops[0], test.comparators[0]):
            return lo, hi
    return None


def raising_guards(fn, var):
    """If-statements of ``fn`` whose body raises and whose test mentions ``var``."""
    out = []
    for n in walk_local(fn):
        if isinstance(n, ast.If) and any(isinstance(s, ast.Raise) for s in n.body):
            if any(isinstance(x, ast.Name) and x.id == var for x in ast.walk(n.test)):
                out.append(n)
    return out


def unfold_attr(init_fn, attr_text, selfname='self'):
    """branches of the defining expression of ``self.X`` in ``__init__``: list of (condition_text, expr)
    with constructor parameters that are stored verbatim on self renamed to their attribute
    (``crys`` -> ``self.crys``)."""
    stored = {}
    for n in walk_local(init_fn):
        if isinstance(n, ast.Assign) and len(n.targets) == 1 and isinstance(n.targets[0], ast.Attribute) \
                and isinstance(n.targets[0].value, ast.Name) and n.targets[0].value.id == selfname \
                and isinstance(n.value, ast.Name):
            stored[n.value.id] = unparse(n.targets[0])
    defs = [n for n in walk_local(init_fn) if isinstance(n, ast.Assign) and len(n.targets) == 1
            and unparse(n.targets[0]) == attr_text]
    if len(defs) != 1:
        return None
    v = defs[0].value
    branches = [(unparse(v.test), v.body), ('not (%s)' % unparse(v.test), v.orelse)] if isinstance(v, ast.IfExp) \
        else [('', v)]
    return [(c, rename(e, stored)) for c, e in branches]


def substitute(form, key, repl):
    """replace atom ``key`` in a linear form by the linear form ``repl``."""
    if key not in form:
        return dict(form)
    out = dict(form)
    c = out.pop(key)
    for k, v in repl.items():
        out[k] = out.get(k, 0) + c * v
        if out[k] == 0:
            del out[k]
    return out
