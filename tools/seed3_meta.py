#!/venv/bin/python
"""
Round-3 bookkeeping: copy the confirmed deliverables of /tmp/seed/<Cxx>/{patch,demo,notes}_{c,d} to /verif/seeded/<Cxx><v>/,
and (re)write detected_by in every seeded/<id>/meta.json from a matrix run (tools/matrix.sh output) plus one run of each firing
check on the patched scratch tree /tmp/sw/<id> to record the rules.  Writes seeded/MATRIX.md.   usage: seed3_meta.py <matrix.txt> [<srcroot> <variants> <round>]
(defaults /tmp/seed cd 3; round 4: /tmp/seed4 ef 4; round 5: /tmp/seed5 gh 5).  A seed whose meta.json exists is not re-imported.
"""
import glob, json, os, re, shutil, subprocess, sys
mat = {}
for l in (open(sys.argv[1]) if sys.argv[1] != '-' else []):
    m = re.match(r'SEED (\w+): (.*)', l)
    if m:
        props = re.findall(r'C\d\d', m.group(2).split('(analysis')[0]) if 'MISSED' not in m.group(2) else []
        mat[m.group(1)] = props
head = subprocess.run(['git', '-C', '/repo', 'rev-parse', '--short', 'HEAD'], capture_output=True, text=True).stdout.strip()
SRC, VARS, ROUND = (sys.argv[2], sys.argv[3], int(sys.argv[4])) if len(sys.argv) > 4 else ('/tmp/seed', 'cd', 3)
AFTER = json.load(open('/verif/seeded/rules_after_seed.json')) if os.path.exists('/verif/seeded/rules_after_seed.json') else {}
for d in sorted(glob.glob(SRC + '/C*')):
    pid = os.path.basename(d)
    for v in VARS:
        if not os.path.exists('%s/patch_%s.diff' % (d, v)) or not os.path.exists('%s/confirm_%s.txt' % (d, v)):
            continue
        sid = pid + v
        out = '/verif/seeded/' + sid
        if os.path.exists(out + '/meta.json'):
            continue
        os.makedirs(out, exist_ok=True)
        shutil.copy('%s/patch_%s.diff' % (d, v), out + '/patch.diff')
        shutil.copy('%s/demo_%s.py' % (d, v), out + '/demo.py')
        if os.path.exists('%s/notes_%s.md' % (d, v)):
            shutil.copy('%s/notes_%s.md' % (d, v), out + '/notes.md')
        conf = open('%s/confirm_%s.txt' % (d, v)).read() if os.path.exists('%s/confirm_%s.txt' % (d, v)) else ''
        g = lambda pat: (re.search(pat, conf).group(1) if re.search(pat, conf) else '?')
        needs = ''
        if os.path.exists(out + '/notes.md'):
            txt = open(out + '/notes.md').read()
            m = re.search(r'(?is)(needs?[^\n]*manifest[^\n]*|what (it|is) need[^\n]*)\n+(.*?)(\n#|\n\n\n|\Z)', txt)
            needs = re.sub(r'\s+', ' ', m.group(3))[:400] if m else ''
        meta = {'id': sid, 'property': pid, 'variant': v, 'round': ROUND,
                'breaks': 'see notes.md (written by the seeding sub-agent, which saw only the property text)',
                'needs_to_manifest': needs or 'see notes.md',
                'files_changed': sorted(set(re.findall(r'^diff --git a/(\S+)', open(out + '/patch.diff').read(), re.M))),
                'patch': 'applies to HEAD as delivered',
                'confirmed_by_me': {'how': 'SEEDROOT=' + SRC + ' tools/confirm_seed.sh %s %s : scratch worktree of /repo HEAD %s, demo on clean tree, apply patch, demo again, '
                                           'full pinned suite with -n 6, worktree removed' % (pid, v, head),
                                    'demo_exit_clean': g(r'clean_exit=(\d+)'), 'demo_exit_patched': g(r'patched_exit=(\d+)'),
                                    'suite_with_patch': g(r'(\d+ failed, \d+ passed[^\n]*?error)')},
                'rule_written_after_seeing_the_seed': None}
        json.dump(meta, open(out + '/meta.json', 'w'), indent=1)
if sys.argv[1] == '-':
    print('imported only')
    sys.exit(0)
rows = []
for mf in sorted(glob.glob('/verif/seeded/C*/meta.json')):
    meta = json.load(open(mf))
    sid = meta['id']
    det = []
    for p in mat.get(sid, []):
        r = subprocess.run(['/venv/bin/python', '-m', 'sa.cli', 'check', p], capture_output=True, text=True, cwd='/verif',
                           env=dict(os.environ, ONSAGER_REPO='/tmp/sw/' + sid, SA_NOWRITE='1'))
        rules = sorted(set(re.findall(r'^\s+\S+:\d+ \S+ \[([a-z0-9-]+)\]', r.stdout, re.M)))
        if rules:
            det.append({'check': p, 'rules': rules})
    meta['detected_by'] = det
    if sid in AFTER:
        meta['rule_written_after_seeing_the_seed'] = AFTER[sid]
    meta['checks_run'] = 'tools/matrix.sh: every claimed check (quick, registered tree form) on /tmp/sw/%s = tracked tree of /repo HEAD %s + patch.diff' % (sid, head)
    meta.setdefault('analysis_errors', [])
    json.dump(meta, open(mf, 'w'), indent=1)
    rows.append((sid, meta.get('property'), det, meta.get('round', 1)))
with open('/verif/seeded/MATRIX.md', 'w') as f:
    f.write('# Seeded changes vs checks (repo HEAD %s)\n\nRounds 1-2: variants a, b (42 of 48 were caught at the end of round 2, several by rules written after the seed was seen -- see DESIGN.md §7.2). '
            'Round 3: variants c, d, produced by fresh sub-agents that saw only the property text; DESIGN.md §7.5 says which rules were added after them. Rounds 4 (e, f) and 5 (g, h): same protocol; DESIGN.md §7.8; seeded/rules_after_seed.json lists the seeds that were missed when first tried and the rule written or repaired afterwards.\n\n' % head)
    f.write('| seed | property claimed? | caught by | rule written / repaired after seeing the seed |\n|---|---|---|---|\n')
    claimed = set(json.load(open('/verif/MANIFEST.json'))['checks'][i]['property_id'] for i in range(len(json.load(open('/verif/MANIFEST.json'))['checks'])))
    n = c = 0
    for sid, pid, det, rnd in rows:
        n += 1
        c += bool(det)
        f.write('| %s | %s | %s | %s |\n' % (sid, 'yes' if pid in claimed else 'not applicable',
                                           ', '.join('%s [%s]' % (d['check'], ', '.join(d['rules'])) for d in det) or '**missed**',
                                           AFTER.get(sid, '')))
    f.write('\n%d of %d caught.\n' % (c, n))
print('seeds', len(rows))
