"""
Linear forms over symbolic atoms (Fraction coefficients, no solver) and a commutative
canonical form for expressions.  Shared by exchange / balance / siblings / bounds / eqhash.
"""
import ast
import copy
from fractions import Fraction

from ..model import unparse


def const_value(node):
    if isinstance(node, ast.Constant) and isinstance(node.value, (int, float)) and not isinstance(node.value, bool):
        return Fraction(node.value).limit_denominator(10 ** 9)
    if isinstance(node, ast.UnaryOp) and isinstance(node.op, ast.USub):
        v = const_value(node.operand)
        return -v if v is not None else None
    if isinstance(node, ast.UnaryOp) and isinstance(node.op, ast.UAdd):
        return const_value(node.operand)
    if isinstance(node, ast.BinOp) and isinstance(node.op, (ast.Add, ast.Sub, ast.Mult, ast.Div)):
        a, b = const_value(node.left), const_value(node.right)
        if a is None or b is None:
            return None
        if isinstance(node.op, ast.Add):
            return a + b
        if isinstance(node.op, ast.Sub):
            return a - b
        if isinstance(node.op, ast.Mult):
            return a * b
        return a / b if b != 0 else None
    return None


def linform(node, atom=None):
    """dict {atom_text: Fraction}; the constant term lives under ''.  ``atom`` maps a
    non-linear sub-expression to its key (default: canonical text)."""
    atom = atom or canon
    out = {}

    def add(k, c):
        if c == 0:
            return
        out[k] = out.get(k, 0) + c
        if out[k] == 0:
            del out[k]

    def rec(n, coef):
        c = const_value(n)
        if c is not None:
            add('', coef * c)
            return
        if isinstance(n, ast.BinOp):
            if isinstance(n.op, ast.Add):
                rec(n.left, coef)
                rec(n.right, coef)
                return
            if isinstance(n.op, ast.Sub):
                rec(n.left, coef)
                rec(n.right, -coef)
                return
            if isinstance(n.op, ast.Mult):
                a, b = const_value(n.left), const_value(n.right)
                if a is not None:
                    rec(n.right, coef * a)
                    return
                if b is not None:
                    rec(n.left, coef * b)
                    return
            if isinstance(n.op, ast.Div):
                b = const_value(n.right)
                if b is not None and b != 0:
                    rec(n.left, coef / b)
                    return
        if isinstance(n, ast.UnaryOp):
            if isinstance(n.op, ast.USub):
                rec(n.operand, -coef)
                return
            if isinstance(n.op, ast.UAdd):
                rec(n.operand, coef)
                return
        add(atom(n), coef)

    rec(node, Fraction(1))
    return out


def lin_sub(a, b):
    out = dict(a)
    for k, v in b.items():
        out[k] = out.get(k, 0) - v
        if out[k] == 0:
            del out[k]
    return out


def lin_neg(a):
    return {k: -v for k, v in a.items()}


def lin_str(a):
    if not a:
        return '0'
    out = []
    for k, v in sorted(a.items()):
        if not k:
            out.append(str(v))
        elif v == 1:
            out.append(k)
        elif v == -1:
            out.append('-' + k)
        else:
            out.append('%s*%s' % (v, k))
    return ' + '.join(out).replace('+ -', '- ')


# ------------------------------------------------------------------ canonical form
def canon(node):
    """canonical text: + and * flattened to sorted multisets, a-b as a+(-1)*b, numeric
    constants folded, commutative numpy helpers (np.sqrt(a*b)) handled through their arguments."""
    return _c(node)


def _c(n):
    c = const_value(n)
    if c is not None:
        return str(c)
    if isinstance(n, ast.BinOp) and isinstance(n.op, (ast.Add, ast.Sub)) or \
            isinstance(n, ast.UnaryOp) and isinstance(n.op, (ast.USub, ast.UAdd)):
        lf = linform(n, atom=_c)
        terms = sorted(lf.items())
        return '(' + ' + '.join(('%s*%s' % (v, k)) if k else str(v) for k, v in terms) + ')'
    if isinstance(n, ast.BinOp) and isinstance(n.op, (ast.Mult, ast.Div)):
        num, den, coef = [], [], [Fraction(1)]

        def flat(x, inv):
            cv = const_value(x)
            if cv is not None:
                if inv:
                    if cv != 0:
                        coef[0] /= cv
                    else:
                        den.append('0')
                else:
                    coef[0] *= cv
                return
            if isinstance(x, ast.BinOp) and isinstance(x.op, ast.Mult):
                flat(x.left, inv)
                flat(x.right, inv)
            elif isinstance(x, ast.BinOp) and isinstance(x.op, ast.Div):
                flat(x.left, inv)
                flat(x.right, not inv)
            elif isinstance(x, ast.UnaryOp) and isinstance(x.op, ast.USub):
                coef[0] = -coef[0]
                flat(x.operand, inv)
            else:
                (den if inv else num).append(_c(x))

        flat(n, False)
        s = '*'.join(sorted(num)) or '1'
        if den:
            s += '/(' + '*'.join(sorted(den)) + ')'
        if coef[0] != 1:
            s = '%s*%s' % (coef[0], s)
        return '[' + s + ']'
    if isinstance(n, ast.Call):
        f = unparse(n.func)
        args = [_c(a) for a in n.args] + ['%s=%s' % (k.arg, _c(k.value)) for k in n.keywords]
        return '%s(%s)' % (f, ', '.join(args))
    if isinstance(n, ast.Subscript):
        return '%s[%s]' % (_c(n.value), _c(n.slice))
    if isinstance(n, ast.Tuple):
        return '(' + ', '.join(_c(e) for e in n.elts) + ',)'
    if isinstance(n, ast.List):
        return '[' + ', '.join(_c(e) for e in n.elts) + ']'
    if isinstance(n, ast.Attribute):
        return '%s.%s' % (_c(n.value), n.attr)
    if isinstance(n, ast.Compare) and len(n.ops) == 1 and isinstance(n.ops[0], (ast.Eq, ast.NotEq)):
        a, b = sorted([_c(n.left), _c(n.comparators[0])])
        return '(%s %s %s)' % (a, '==' if isinstance(n.ops[0], ast.Eq) else '!=', b)
    if isinstance(n, ast.BoolOp):
        return '(' + (' and ' if isinstance(n.op, ast.And) else ' or ').join(sorted(_c(v) for v in n.values)) + ')'
    return unparse(n)


# ------------------------------------------------------------------ renaming
class Renamer(ast.NodeTransformer):
    """apply a name/attribute/expression-text substitution sigma simultaneously."""

    def __init__(self, sigma):
        # sigma: dict text -> text; matched against unparse() of Name / Attribute / Subscript nodes
        self.sigma = sigma
        self.parsed = {k: ast.parse(v, mode='eval').body for k, v in sigma.items()}

    def generic_visit(self, node):
        return super().generic_visit(node)

    def visit(self, node):
        if isinstance(node, (ast.Name, ast.Attribute, ast.Subscript)):
            t = unparse(node)
            if t in self.parsed:
                new = copy.deepcopy(self.parsed[t])
                return ast.copy_location(new, node)
        return super().visit(node)


def clone(node):
    """parent-pointer-free copy of an expression or statement (re-parse of its unparse)."""
    if isinstance(node, ast.expr):
        new = ast.parse(unparse(node), mode='eval').body
    elif isinstance(node, ast.stmt):
        new = ast.parse(unparse(node)).body[0]
    else:
        raise TypeError('clone: %r' % node)
    return ast.copy_location(new, node)


def rename(node, sigma):
    return ast.fix_missing_locations(Renamer(sigma).visit(clone(node)))


def swap_sigma(pairs):
    s = {}
    for a, b in pairs:
        s[a] = b
        s[b] = a
    return s
