#!/bin/bash
# usage: run_all.sh quick|thorough   -- every registered check in parallel; prints one summary line per property
tier=${1:-quick}
cd /verif
/venv/bin/python - <<PY | xargs -P 16 -I{} sh -c '/venv/bin/python -m sa.cli check {} --tier '"$tier"' > /tmp/sa_{}.out 2>&1; echo "{} exit=$? $(grep -E "tier=" /tmp/sa_{}.out | tail -1 | cut -d" " -f3-) $(grep -c "^VIOLATION" /tmp/sa_{}.out) VIOLATION $(grep -E "^ADEQUACY" /tmp/sa_{}.out | cut -d: -f2)"; rm -f /tmp/sa_{}.out'
import json
for c in json.load(open('MANIFEST.json'))['checks']: print(c['property_id'])
PY
