"""
C30 -- automation tarballs are complete and self-consistent (structural clauses).

Not decided: archive contents for a given dictionary (an execution).  Decided:
  * the module can be imported at all: every import resolves in the repository's own environment;
  * every bundled resource loaded by name exists in the package directory and is covered by the packaging manifest;
  * the transformation file layout written by map2string (tag line, three rotation rows, translation, mapping) is the
    layout the bundled trans.pl reads ($trans[1..3], $trans[4], $trans[5]) -- the only textual rule, a lexical extraction
    on the 43-line Perl script; the mapping indices are shifted by the accumulated species lengths;
  * every Makefile rule appended for a transition endpoint names, in the same block and under the same condition, a
    dependency that is written with addfile (the file the relaxation produces, CONTCAR, is exempt), in the argument order
    trans.pl expects (transformation file, then structure); POS.* / POSCAR.* naming uses the complement of the predicate
    that guards the rule;
  * directory names: default state and transition prefixes are disjoint and the JSON tag map is the inversion of the
    directory map; the static Makefile text uses the default transition prefix;
  * the keys of the supercell dictionary the module reads are written by both makesupercells routines.
"""
import ast
import os
import re
import fnmatch

from ..model import AnalysisError, dotted, unparse, walk_local
from ..engines import resolve, automake, pattern
from ._common import conditions_at, resolve_local


def run(model, rep, tier):
    rep.explanation = __doc__.strip()
    rep.not_decided = 'the actual archive written for a given dictionary; behaviour of perl / make'
    rep.rule('imports-resolve', 'every import of automator.py resolves in the repository\'s environment')
    rep.rule('resources-exist', 'bundled resources named in the code exist and are packaged')
    rep.rule('trans-layout', 'map2string line layout = lines read by trans.pl')
    rep.rule('makefile-deps-written', 'Makefile dependencies are files written in the same block; argument order matches trans.pl')
    rep.rule('naming', 'prefixes disjoint, tag map inverts directory map, POS/POSCAR predicate complements the rule predicate')
    rep.rule('superdict-keys', 'keys read from the supercell dictionary are written by both makesupercells')
    mod = model.mod('automator')
    for node, text, ok, msg in resolve.check_imports(model, mod):
        rep.ob('imports-resolve', mod, node, text, ok, msg + (': `import onsager.automator` fails, nothing in the module can be used'
                                                              if not ok else ''), engine='resolve', qual='<module>')
    und = [(q, n) for q, n, l in resolve.undefined_names(mod)]
    rep.ob('imports-resolve', mod, mod.tree, 'all names used in automator.py functions resolve', not und,
           '' if not und else 'undefined names: %s' % und, engine='resolve', qual='<module>')
    for node, d, ok, msg in resolve.external_chains(model, mod):
        if not ok:
            rep.ob('imports-resolve', mod, node, d, ok, msg, engine='resolve')
    # ---- resources
    manifest = model.read('MANIFEST.in') if model.exists('MANIFEST.in') else ''
    pats = [l.split()[2:] for l in manifest.splitlines() if l.startswith('recursive-include onsager')]
    pats = [p for ps in pats for p in ps]
    nres = 0
    for node, fn, ok in resolve.resources(model, mod):
        nres += 1
        rep.ob('resources-exist', mod, node, 'resource %s present in onsager/' % fn, ok, '' if ok else 'file missing: the call raises',
               engine='resolve', qual='supercelltar')
        packed = any(fnmatch.fnmatch(fn, p) for p in pats)
        rep.ob('resources-exist', mod, node, 'resource %s matched by MANIFEST.in (recursive-include onsager %s)' % (fn, ' '.join(pats)), packed,
               '' if packed else 'the file is not part of a built distribution: supercelltar fails on an installed package', engine='resolve',
               qual='supercelltar')
    rep.floor('bundled resources', nres, 3)
    # ---- trans layout
    m2s = model.func('automator', 'map2string')
    layout, kw, tmpl = automake.map2string_layout(m2s)
    perl = automake.perl_reads(model.read('onsager/trans.pl'))
    if not {'gmat', 'disp', 'mapping'} <= set(perl):
        raise AnalysisError('trans.pl: @gmat / @disp / @mapping assignments not found')
    rot_lines = sorted(i for i, (roots, idx) in layout.items() if roots == ['rot'])
    tr_lines = sorted(i for i, (roots, idx) in layout.items() if roots == ['trans'])
    ok = rot_lines == perl['gmat']
    rep.ob('trans-layout', mod, tmpl, 'rotation rows on lines %s ; trans.pl reads @gmat from lines %s' % (rot_lines, perl['gmat']), ok,
           '' if ok else 'the script reads the rotation from other lines than map2string writes', engine='automake', qual='map2string')
    ok = tr_lines == perl['disp']
    rep.ob('trans-layout', mod, tmpl, 'translation on line %s ; trans.pl reads @disp from %s' % (tr_lines, perl['disp']), ok,
           '' if ok else 'translation line mismatch', engine='automake', qual='map2string')
    nlines = tmpl.func.value.value.count('\n')
    ok = perl['mapping'] == [nlines]
    rep.ob('trans-layout', mod, tmpl, 'mapping appended after %d template lines ; trans.pl reads @mapping from %s' % (nlines, perl['mapping']), ok,
           '' if ok else 'mapping line mismatch', engine='automake', qual='map2string')
    # row i prints rot[i][0..2] in order
    okrows = True
    for k, i in enumerate(rot_lines):
        okrows &= layout[i][1] == ['rot[%d][%d]' % (k, c) for c in range(3)]
    okrows &= bool(tr_lines) and layout[tr_lines[0]][1] == ['trans[%d]' % c for c in range(3)]
    okrows &= kw == {'rot': 'groupop.rot', 'trans': 'groupop.trans'}
    rep.ob('trans-layout', mod, tmpl, 'row k prints rot[k][0..2]; translation prints trans[0..2]; from groupop.rot / groupop.trans', okrows,
           '' if okrows else 'matrix rows/columns or the source of rot/trans are permuted', engine='automake', qual='map2string')
    okshift = pattern.has(m2s, '_N_s = [0] + list(itertools.accumulate((len(_N_r) for _N_r in mapping)))') and \
        pattern.has(m2s, "' '.join(['{}'.format(_N_m + _N_sh) for _N_r, _N_sh in zip(mapping, _N_s) for _N_m in _N_r])", 'expr')
    # equivalent explicit-loop formulation: a running offset advanced by `+= len(remap)` for every species
    if not okshift:
        okshift = any(isinstance(lp, ast.For) and unparse(lp.iter) == 'mapping' and pattern.has(lp, '_N_sh += len(_N_r)', _N_r=unparse(lp.target))
                      and pattern.has(lp, '_N_m + _N_sh', 'expr') for lp in walk_local(m2s))
    # cumulative list built by appending previous + len(remap), then paired with the species by zip
    if not okshift:
        for lp in walk_local(m2s):
            if isinstance(lp, ast.For) and unparse(lp.iter) == 'mapping':
                for b in pattern.find(lp, '_N_s.append(_N_s[-1] + len(_N_r))', _N_r=unparse(lp.target)):
                    start0 = pattern.has(m2s, '%s = [0]' % b['_N_s'])
                    used = any(isinstance(l2, ast.For) and unparse(l2.iter) == 'zip(mapping, %s)' % b['_N_s'] and isinstance(l2.target, ast.Tuple)
                               and pattern.has(l2, '_N_m + %s' % unparse(l2.target.elts[1]), 'expr') for l2 in walk_local(m2s))
                    okshift = okshift or (start0 and used)
    rep.ob('trans-layout', mod, m2s, 'mapping indices are offset by the accumulated lengths of the preceding species', okshift,
           '' if okshift else 'per-species indices are not converted to POSCAR line numbers', engine='automake', qual='map2string')
    # ---- Makefile rules
    st = model.func('automator', 'supercelltar')
    rules = []
    for n in walk_local(st):
        if isinstance(n, ast.AugAssign) and unparse(n.target) == 'Makefile' and isinstance(n.value, ast.Call) \
                and isinstance(n.value.func, ast.Attribute) and n.value.func.attr == 'format' and isinstance(n.value.func.value, ast.Constant):
            rules.append(n)
    rep.floor('Makefile rule templates', len(rules), 1)
    for r in rules:
        text = r.value.func.value.value
        kwr = {k.arg: unparse(k.value) for k in r.value.keywords}
        target, deps = text.strip().split(':', 1)
        deps = deps.split()
        blk = getattr(r, '_parent', None)
        written = []
        for c in ast.walk(blk):
            if isinstance(c, ast.Call) and unparse(c.func) == 'addfile' and c.args:
                written.append(_as_template(c.args[0], kwr))
        for d in deps:
            if d.endswith('/CONTCAR'):
                rep.note('dependency %s is produced by the relaxation run (exempt)' % d)
                continue
            ok = d in written
            rep.ob('makefile-deps-written', mod, r, 'rule `%s` : dependency %s written by addfile in the same block (%s)' % (target, d, written), ok,
                   '' if ok else 'make has no way to build %s: the NEB endpoint cannot be generated' % d, engine='automake', qual='supercelltar')
        order = [d.split('/')[-1].split('.')[0] for d in deps]
        ok = order == ['trans', 'CONTCAR']
        rep.ob('makefile-deps-written', mod, r, 'dependency order %s = arguments of trans.pl (transformation, structure)' % order, ok,
               '' if ok else '$^ passes the files to trans.pl in the wrong order', engine='automake', qual='supercelltar')
        # guard of the rule and the POS/POSCAR naming predicate
        conds = conditions_at(st, r)
        okg = any(re.fullmatch(r'\w+ is not None', c) for c in conds)
        rep.ob('naming', mod, r, 'rule emitted only for mapped endpoints (conditions holding at the rule: %s)' % sorted(conds), okg,
               '' if okg else 'rule emitted unconditionally', engine='automake', qual='supercelltar')
    # POS / POSCAR: a conditional expression on ``<mapping of this endpoint> is None`` chooses between the two names
    names = 0
    for end, idx in (('init', 0), ('final', 1)):
        for n in walk_local(st):
            if not isinstance(n, ast.IfExp):
                continue
            cb = {c.value for c in ast.walk(n.body) if isinstance(c, ast.Constant) and isinstance(c.value, str)}
            co = {c.value for c in ast.walk(n.orelse) if isinstance(c, ast.Constant) and isinstance(c.value, str)}
            if not ({'/POSCAR.' + end, '/POS.' + end} <= cb | co):
                continue
            t = n.test
            if not (isinstance(t, ast.Compare) and len(t.ops) == 1 and isinstance(t.ops[0], (ast.Is, ast.IsNot))
                    and isinstance(t.comparators[0], ast.Constant) and t.comparators[0].value is None):
                continue
            none_branch, some_branch = (cb, co) if isinstance(t.ops[0], ast.Is) else (co, cb)
            what = unparse(resolve_local(st, t.left))
            okx = re.fullmatch(r"(superdict\['transmapping'\]|transmapping)\[\w+\]\[%d\]" % idx, what) is not None
            if okx and '/POSCAR.' + end in none_branch and '/POS.' + end in some_branch \
                    and '/POSCAR.' + end not in some_branch and '/POS.' + end not in none_branch:
                names += 1
    rep.ob('naming', mod, st, 'POSCAR.<end> when the endpoint has no mapping, POS.<end> when make must build POSCAR.<end>', names == 2,
           '' if names == 2 else 'an endpoint that make has to build is also written directly (or a needed one is not written)',
           engine='automake', qual='supercelltar')
    loopsrc = pattern.has(st, "for _N_m, _N_t in ((transmapping[_N_tag][0], 'init'), (transmapping[_N_tag][1], 'final')):\n    _E_b".replace('_E_b', 'pass'))
    pairs = [x for x in walk_local(st) if isinstance(x, ast.For) and isinstance(x.iter, ast.Tuple) and len(x.iter.elts) == 2
             and all(isinstance(e, ast.Tuple) and len(e.elts) == 2 for e in x.iter.elts)]
    ok = False
    for p in pairs:
        got = [(unparse(e.elts[0]), e.elts[1].value if isinstance(e.elts[1], ast.Constant) else None) for e in p.iter.elts]
        if [g[1] for g in got] == ['init', 'final'] and got[0][0].endswith('[0]') and got[1][0].endswith('[1]'):
            ok = True
    rep.ob('naming', mod, st, "mapping [0] goes with 'init', mapping [1] with 'final'", ok,
           '' if ok else 'initial and final mappings are exchanged', engine='automake', qual='supercelltar')
    # prefixes
    defaults = {a.arg: d for a, d in zip(st.args.args[-len(st.args.defaults):], st.args.defaults)}
    sn, tn = (defaults.get(k).value if isinstance(defaults.get(k), ast.Constant) else None for k in ('statename', 'transitionname'))
    ok = sn and tn and not sn.startswith(tn) and not tn.startswith(sn)
    rep.ob('naming', mod, st, 'default prefixes %r / %r are disjoint' % (sn, tn), bool(ok), '' if ok else 'state and transition directories can collide',
           engine='automake', qual='supercelltar')
    ok = pattern.has(st, 'tagmapping = {_N_v: _N_k for _N_k, _N_v in dirmapping.items()}')
    rep.ob('naming', mod, st, 'tagmapping inverts dirmapping', ok, '' if ok else 'the JSON tag map is not the inverse of the directory map',
           engine='automake', qual='supercelltar')
    mk = mod.constants.get('MAKEFILE')
    ok = isinstance(mk, ast.Constant) and tn is not None and (tn + '%/POSCAR.init') in mk.value and '$(transform) $^ > $@' in mk.value
    rep.ob('naming', mod, mk or mod.tree, 'static Makefile rules use the default transition prefix %r and call $(transform) $^ > $@' % tn, bool(ok),
           '' if ok else 'pattern rules do not match the directories written', engine='automake', qual='<module>')
    # ---- superdict keys
    read = set()
    for n in walk_local(st):
        if isinstance(n, ast.Subscript) and unparse(n.value) == 'superdict' and isinstance(n.slice, ast.Constant):
            read.add(n.slice.value)
    optional = {n.left.value for n in walk_local(st) if isinstance(n, ast.Compare) and isinstance(n.ops[0], ast.In)
                and unparse(n.comparators[0]) == 'superdict' and isinstance(n.left, ast.Constant)}
    oc = model.mod('OnsagerCalc')
    for cname in ('Interstitial', 'VacancyMediated'):
        ms = model.func('OnsagerCalc', cname + '.makesupercells')
        lit = [n for n in walk_local(ms) if isinstance(n, ast.Assign) and unparse(n.targets[0]) == 'superdict' and isinstance(n.value, ast.Dict)]
        if len(lit) != 1:
            raise AnalysisError('%s.makesupercells: superdict literal not found' % cname)
        keys = {k.value for k in lit[0].value.keys if isinstance(k, ast.Constant)}
        need = read - optional
        ok = need <= keys
        rep.ob('superdict-keys', oc, lit[0], '%s.makesupercells writes %s ; supercelltar requires %s (optional %s)'
               % (cname, sorted(keys), sorted(need), sorted(optional)), ok, '' if ok else 'KeyError in supercelltar: %s' % sorted(need - keys),
               engine='tables', qual=cname + '.makesupercells')


def _as_template(expr, kw):
    """render an addfile path expression (a sum of names and string constants) as a {name} template using the rule's
    keyword -> expression table."""
    inv = {v: k for k, v in kw.items()}
    parts = []

    def rec(e):
        if isinstance(e, ast.BinOp) and isinstance(e.op, ast.Add):
            rec(e.left)
            rec(e.right)
        elif isinstance(e, ast.Constant) and isinstance(e.value, str):
            parts.append(e.value)
        else:
            t = unparse(e)
            parts.append('{%s}' % inv[t] if t in inv else '<%s>' % t)
    rec(expr)
    return ''.join(parts)


AU = 'onsager/automator.py'
BREAKERS = [
    (AU, "{trans[0]:.16f} {trans[1]:.16f} {trans[2]:.16f}\n\"\"\".format(rot=groupop.rot, trans=groupop.trans)",
     "\n{trans[0]:.16f} {trans[1]:.16f} {trans[2]:.16f}\n\"\"\".format(rot=groupop.rot, trans=groupop.trans)", 'trans-layout'),
    (AU, "{rot[1][0]:3d} {rot[1][1]:3d} {rot[1][2]:3d}", "{rot[0][1]:3d} {rot[1][1]:3d} {rot[2][1]:3d}", 'trans-layout'),
    (AU, "                addfile(dirname + '/trans.' + t, map2string(relax, m[1], m[2]))", "                addfile(dirname + '/map.' + t, map2string(relax, m[1], m[2]))",
     'makefile-deps-written'),
    (AU, "\"{neb}/POSCAR.{type}: {neb}/trans.{type} {relax}/CONTCAR\\n\"", "\"{neb}/POSCAR.{type}: {relax}/CONTCAR {neb}/trans.{type}\\n\"", 'makefile-deps-written'),
    (AU, "statename='relax.', transitionname='neb.'", "statename='neb.relax.', transitionname='neb.'", 'naming'),
    (AU, "            if superdict['transmapping'][tag][0] is None \\\n            else dirname + '/POS.init'", "            if superdict['transmapping'][tag][1] is None \\\n            else dirname + '/POS.init'", 'naming'),
    (AU, "import tarfile, time, io, json", "import tarfile, time, io, json, not_a_module_xyz", 'imports-resolve'),
    (AU, "for m in remap])", "for m in remap for _ in [0]])" if False else "for m in remap])", None) if False else
    (AU, "'{}'.format(m + shift)", "'{}'.format(m)", 'trans-layout'),
]
NEUTRALS = []
