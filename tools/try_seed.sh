#!/bin/bash
# usage: try_seed.sh <patchfile> <prop> [<prop>...]  -- apply a seeded change to /repo, run checks, undo.
p=$1; shift
cd /repo || exit 2
if ! git diff --quiet HEAD; then echo "repo not clean"; exit 2; fi
if ! git apply --check "$p" 2>/dev/null; then echo "PATCH-DOES-NOT-APPLY $p"; exit 3; fi
git apply "$p"
for prop in "$@"; do
  (cd /verif && /venv/bin/python -m sa.cli check $prop 2>&1 | grep -E "^VIOLATION|^ANALYSIS|^  onsager|^  \(before" | cut -c1-330)
  echo "[$prop done]"
done
git checkout HEAD -- . ; git reset -q
