"""Static analyser for DallasTrinkle/Onsager (stdlib only: ast, symtable, importlib.util)."""
