"""
C31 -- cluster enumeration is complete and cluster identity is geometric (structural clauses).

Not decided: completeness with respect to the cutoff (a search).  Decided:
  * identity: Cluster.__hash__ is a commutative fold over the translation-normalised (key, position) pairs that
    __eq__ compares; sites are stored relative to the first site (translation invariance) and sorted by a key that
    ignores the order they were given in (the special transition / vacancy sites stay in front); the number of
    ordinary sites excludes the special ones; applying a group operation and adding a site keep the
    transition / vacancy flags;
  * a transition-state cluster matches a jump given in either direction: the reverse test is the image of the forward
    test under exchanging the two sites (skipped for vacancy clusters, which are oriented);
  * orbit closure: every generator adds, for a new representative, its images under *every* operation of the crystal
    to the output and to the seen-set together; the vacancy transition-state generator adds the orbit of the reversed
    cluster to the same set;
  * neighbour search: the translation search range is the formula Crystal.jumpnetwork uses, and the acceptance window
    is 0 < |dx|^2 < cutoff^2.
"""
import ast

from ..model import AnalysisError, dotted, unparse, walk_local
from ..engines import eqhash, pattern, exchange
from ..engines.linform import canon, rename, swap_sigma
from .C36 import _cluster_fold


def run(model, rep, tier):
    rep.explanation = __doc__.strip()
    from ._common import caches_for
    caches_for(model, rep, 'C31')
    rep.not_decided = 'that every cluster within the cutoff is generated and no other (a geometric search)'
    rep.rule('cluster-hash-fold', 'hash = commutative fold over the normalised (key, position) pairs __eq__ compares')
    rep.rule('normalised-sites', 'sites are stored relative to the first site, sorted independently of input order, flags preserved')
    rep.rule('transition-either-direction', 'istransition: reverse test is the image of the forward test under site exchange')
    rep.rule('orbit-closure', 'new representative -> all images under crys.G go to the output and the seen-set together')
    rep.rule('neighbour-window', 'translation search range and acceptance window agree with Crystal.jumpnetwork')
    mod = model.mod('cluster')
    ci = model.cls('cluster', 'Cluster')
    eq = ci.methods.get('__eq__')
    h = ci.methods.get('__hash__')
    if eq is None or h is None:
        raise AnalysisError('anchor vanished: Cluster.__eq__ / __hash__')
    info = eqhash.analyse_eq(eq)
    _cluster_fold(model, rep, mod, ci, info, eqhash.hash_fields(h))
    init = ci.methods['__init__']
    # ---- normalisation
    ok = pattern.has(init, '_N_R0 = _N_l[0].R') and pattern.has(init, 'self.sites = tuple([_N_c - _N_R0 for _N_c in _N_l])')
    rep.ob('normalised-sites', mod, init, 'sites stored as (site - R of the first site)', ok,
           '' if ok else 'clusters that differ by a lattice translation are stored differently', engine='eqhash', qual='Cluster.__init__')
    sorts = [pattern.has(init, '_N_l = _N_l[0:2] + sorted(_N_l[2:], key=_N_k)'), pattern.has(init, '_N_l = _N_l[0:1] + sorted(_N_l[1:], key=_N_k)'),
             pattern.has(init, '_N_l.sort(key=_N_k)')]
    rep.ob('normalised-sites', mod, init, 'ordinary sites are sorted; the 2 transition / 1 vacancy sites stay in front', all(sorts),
           '' if all(sorts) else 'site order (hence the reference site) depends on the order the sites were given in', engine='eqhash',
           qual='Cluster.__init__')
    # Norder = len(sites), reduced by 2 exactly when ``transition`` and by 1 exactly when ``vacancy`` and not transition
    # (``-=`` or spelled out; if/elif or any equivalent nesting: decided by the conditions holding at each reduction)
    from ._common import conditions_at, update_of
    reds = set()
    for st_ in walk_local(init):
        if isinstance(st_, (ast.Assign, ast.AugAssign)):
            u = update_of(st_)
            if u and u[0] == 'self.Norder' and u[1] == 'Sub' and isinstance(u[2], ast.Constant):
                reds.add((u[2].value, frozenset(c for c in conditions_at(init, st_) if 'transition' in c or 'vacancy' in c)))
    from ._common import resolve_local
    base = [st_ for st_ in walk_local(init) if isinstance(st_, ast.Assign) and unparse(st_.targets[0]) == 'self.Norder' and update_of(st_) is None]
    ok = reds == {(2, frozenset({'transition'})), (1, frozenset({'not transition', 'vacancy'}))} \
        and len(base) == 1 and unparse(resolve_local(init, base[0].value)) == 'len(self.sites)'
    rep.ob('normalised-sites', mod, init, 'Norder = number of sites minus the special (2 / 1) sites', ok,
           '' if ok else 'cluster order counts the transition / vacancy sites', engine='eqhash', qual='Cluster.__init__')
    g = ci.methods.get('g')
    ok = g is not None and pattern.has(g, 'return self.__class__([_N_c.g(crys, g) for _N_c in self.sites], transition=self.__transition__, vacancy=self.__vacancy__)')
    rep.ob('normalised-sites', mod, g or ci.node, 'Cluster.g maps every site with the operation and keeps the transition / vacancy flags', ok,
           '' if ok else 'images of a transition / vacancy cluster lose their character', engine='eqhash', qual='Cluster.g')
    ad = ci.methods.get('__add__')
    ok = ad is not None and pattern.has(ad, 'return self.__class__(self.sites + (other,), transition=self.__transition__, vacancy=self.__vacancy__)')
    rep.ob('normalised-sites', mod, ad or ci.node, 'Cluster + site keeps the flags', ok, '' if ok else 'flags lost on growth', engine='eqhash',
           qual='Cluster.__add__')
    # eq compares the flags, the order and the maps
    need = {'__transition__', '__vacancy__', 'Norder', '__equalitymap__'}
    ok = need <= set(info.exact)
    rep.ob('normalised-sites', mod, eq, 'Cluster.__eq__ compares %s exactly' % sorted(set(info.exact)), ok,
           '' if ok else 'equality ignores %s' % sorted(need - set(info.exact)), engine='eqhash', qual='Cluster.__eq__')
    # ---- istransition
    it = ci.methods.get('istransition')
    if it is None:
        raise AnalysisError('anchor vanished: Cluster.istransition')
    a0, a1 = [a.arg for a in it.args.args[1:3]]
    # the conditions under which True is returned, in order: `if T: return True`, or a final `return T` / `return bool(T)`
    tnodes = []
    for n in it.body:
        if isinstance(n, ast.If) and any(isinstance(s_, ast.Return) and isinstance(s_.value, ast.Constant) and s_.value.value is True for s_ in n.body):
            tnodes.append((n.test, n))
            for o in n.orelse:
                if isinstance(o, ast.If) and any(isinstance(s_, ast.Return) and isinstance(s_.value, ast.Constant) and s_.value.value is True for s_ in o.body):
                    tnodes.append((o.test, o))
        elif isinstance(n, ast.Return) and n.value is not None and not isinstance(n.value, ast.Constant):
            v = n.value
            if isinstance(v, ast.Call) and unparse(v.func) == 'bool' and len(v.args) == 1:
                v = v.args[0]
            tnodes.append((v, n))
    tests = [t for t, _ in tnodes]
    if len(tests) != 2:
        rep.undecided('Cluster.istransition: the two acceptance tests (forward / reverse) were not located')
    else:
        # with the local reference vectors written out, the reverse test is the image of the forward one under s0 <-> s1
        t0, t1 = resolve_local(it, tests[0]), resolve_local(it, tests[1])
        ok = canon(rename(t0, swap_sigma([(a0, a1)]))) == canon(t1)
        fwd = canon(t0) == canon(ast.parse('self.sites[0] == %s - %s.R and self.sites[1] == %s - %s.R' % (a0, a0, a1, a0), mode='eval').body)
        ok = ok and fwd
        rep.ob('transition-either-direction', mod, it, 'istransition: forward test (sites[0], sites[1]) == (s0 - R0, s1 - R0); reverse = its image under s0<->s1',
               ok, '' if ok else 'a jump given in the reverse direction is not recognised as the same transition state (or only on one site '
                                 'index): i->j and j->i forms of one cluster compare unequal', engine='exchange', qual='Cluster.istransition')
        # the reverse test is reached only when the cluster is not a vacancy cluster (elif ... return False, or an early return)
        okv = 'not self.__vacancy__' in conditions_at(it, tnodes[1][1]) and 'not self.__vacancy__' not in conditions_at(it, tnodes[0][1])
        rep.ob('transition-either-direction', mod, it, 'vacancy transition clusters are oriented: no reverse match', okv,
               '' if okv else 'vacancy TS clusters match the reverse jump', engine='exchange', qual='Cluster.istransition')
    # ---- orbit closure
    # evaluated on the normal form: a local helper that builds the orbit is written out where it is called
    import re
    nmodel = model.normal()
    nmod = nmodel.mod('cluster')
    n_sites = 0
    for fname in ('makeclusters', 'makeTSclusters', 'makeVacancyClusters'):
        fn = nmodel.func('cluster', fname)
        found = pattern.find(fn, '_N_s = set([_N_c.g(crys, _N_g) for _N_g in _E_grp])') + \
            pattern.find(fn, '_N_s = {_N_c.g(crys, _N_g) for _N_g in _E_grp}')
        for b in found:
            n_sites += 1
            blk = getattr(b['_node'], '_parent', None)
            whole = b['_E_grp'] == 'crys.G'
            rep.ob('orbit-closure', nmod, b['_node'], '%s: images taken under %s' % (fname, b['_E_grp']), whole,
                   '' if whole else 'the orbit is generated from a subset of the space group: symmetry-equivalent clusters end up in '
                                    'different sets', engine='owner', qual=fname)
            ok = pattern.has(blk, '_N_e.append(_N_s)', _N_s=b['_N_s']) and pattern.has(blk, '_N_seen.update(_N_s)', _N_s=b['_N_s'])
            seen = [m.group(1) for m in (re.fullmatch(re.escape(b['_N_c']) + r' not in (\w+)', c) for c in conditions_at(fn, b['_node'])) if m]
            guard = bool(seen)
            seen_same = guard and pattern.has(blk, '_N_seen.update(_N_s)', _N_seen=seen[0], _N_s=b['_N_s'])
            rep.ob('orbit-closure', nmod, b['_node'], '%s: `%s` appended to the expansion and merged into the seen-set it was tested against'
                   % (fname, unparse(b['_node'])[:70]), bool(ok and guard and seen_same),
                   '' if ok and guard and seen_same else 'the orbit of a new representative is not recorded as seen (duplicates) or not '
                                                        'output (missing clusters)', engine='owner', qual=fname)
            # the seen-set lives as long as the list of orbits it guards: re-created inside a loop that keeps appending to the
            # same list, it forgets the orbits found in earlier iterations and an orbit reachable from two base clusters
            # (a vacancy TS cluster and the reversed cluster of another base orbit) is listed twice
            if guard:
                elist = next((m['_N_e'] for m in pattern.find(blk, '_N_e.append(_N_s)', _N_s=b['_N_s'])), None)

                def _loops(node):
                    # loops over the cluster order do not count: clusters made in different passes differ in Norder, which
                    # Cluster.__eq__ compares, so a per-order seen-set loses nothing
                    out, p_ = [], getattr(node, '_parent', None)
                    while p_ is not None and p_ is not fn:
                        if isinstance(p_, (ast.For, ast.While)) and not (isinstance(p_, ast.For) and isinstance(p_.iter, ast.Call)
                                                                         and unparse(p_.iter.func) == 'range' and 'maxorder' in unparse(p_.iter)):
                            out.append(id(p_))
                        p_ = getattr(p_, '_parent', None)
                    return set(out)
                sinit = [n for n in walk_local(fn) if isinstance(n, ast.Assign) and len(n.targets) == 1 and unparse(n.targets[0]) == seen[0]]
                einit = [n for n in walk_local(fn) if isinstance(n, ast.Assign) and len(n.targets) == 1 and unparse(n.targets[0]) == elist] \
                    if elist else []
                if not sinit or not einit:
                    rep.undecided('%s: where %s / %s are created was not located' % (fname, seen[0], elist))
                else:
                    eloops = set.union(*[_loops(n) for n in einit])
                    inner = [n for n in sinit if _loops(n) - eloops and _loops(n) & _loops(b['_node'])]
                    rep.ob('orbit-closure', nmod, inner[0] if inner else sinit[0],
                           '%s: seen-set %s is created alongside the list %s it guards' % (fname, seen[0], elist), not inner,
                           '' if not inner else 'the seen-set is re-created in every pass of a loop that goes on appending to %s: orbits found '
                           'in earlier passes are forgotten, so an orbit reachable from two base clusters is listed twice' % elist,
                           engine='owner', qual=fname)
    rep.floor('orbit generation sites', n_sites, 5)
    ts = model.func('cluster', 'makeTSclusters')
    # the reversed cluster's images under every g of crys.G enter the same set: one add per g, or one update with a generator
    rev = pattern.find(ts, 'for _N_g in crys.G:\n    _N_s.add(_N_r.g(crys, _N_g))') + \
        pattern.find(ts, '_N_s.update((_N_r.g(crys, _N_g) for _N_g in crys.G))') + \
        pattern.find(ts, '_N_s.update([_N_r.g(crys, _N_g) for _N_g in crys.G])') + \
        pattern.find(ts, '_N_s.update({_N_r.g(crys, _N_g) for _N_g in crys.G})')
    ok = False
    for b in rev:
        blk = getattr(b['_node'], '_parent', None)
        if isinstance(blk, ast.Expr):
            blk = getattr(blk, '_parent', None)
        ok = ok or (pattern.has(blk, '_N_s = set([_N_c.g(crys, _N_g2) for _N_g2 in crys.G])', _N_s=b['_N_s'])
                    or pattern.has(blk, '_N_s = {_N_c.g(crys, _N_g2) for _N_g2 in crys.G}', _N_s=b['_N_s'])) and \
            bool(pattern.find(blk, '_N_r = Cluster(_N_rp + _N_cl, transition=True, vacancy=True)', _N_r=b['_N_r']))
    rep.ob('orbit-closure', mod, ts, 'vacancy TS clusters: the orbit of the reversed cluster joins the same set', ok,
           '' if ok else 'vacancy transition-state classes are not closed under reversal', engine='owner', qual='makeTSclusters')
    # ---- neighbour window
    mc = model.func('cluster', 'makeclusters')
    jn = model.func('crystal', 'Crystal.jumpnetwork')
    fa = [n for n in walk_local(mc) if isinstance(n, ast.Assign) and unparse(n.targets[0]) == 'nmax']
    fb = [n for n in walk_local(jn) if isinstance(n, ast.Assign) and unparse(n.targets[0]) == 'nmax']
    if len(fa) != 1 or len(fb) != 1:
        raise AnalysisError('nmax definitions not found')
    from .C21 import _anon_comp
    ok = canon(_anon_comp(fa[0].value)) == canon(rename(_anon_comp(fb[0].value), {'self': 'crys'}))
    rep.ob('neighbour-window', mod, fa[0], 'makeclusters nmax = %s' % unparse(fa[0].value), ok,
           '' if ok else 'differs from Crystal.jumpnetwork (%s): neighbours inside the cutoff can be missed' % unparse(fb[0].value),
           engine='siblings', qual='makeclusters')
    # window on the normal form (a temporary holding |dx|^2 is written out); chained or conjunction spelling
    nmc = nmodel.func('cluster', 'makeclusters')
    hits = pattern.find(nmc, '0 < np.dot(_N_dx, _N_dx) < _E_r2', 'expr') + \
        pattern.find(nmc, '0 < np.dot(_N_dx, _N_dx) and np.dot(_N_dx, _N_dx) < _E_r2', 'expr') + \
        pattern.find(nmc, 'np.dot(_N_dx, _N_dx) > 0 and np.dot(_N_dx, _N_dx) < _E_r2', 'expr')
    r2names = {b['_N_r2'] for b in pattern.find(nmc, '_N_r2 = cutoff * cutoff')}
    ok = any(h['_E_r2'] == 'cutoff * cutoff' or h['_E_r2'] in r2names for h in hits)
    rep.ob('neighbour-window', mod, mc, 'makeclusters accepts 0 < |dx|^2 < cutoff^2', ok, '' if ok else 'acceptance window changed',
           engine='siblings', qual='makeclusters')
    ok = pattern.has(mc, 'if all((ClusterSite(_N_c.ci, _N_c.R - _N_R0) in _N_nl for _N_c in _N_prev)):\n    _E_b'.replace('_E_b', 'pass')) or \
        pattern.has(mc, 'all((ClusterSite(_N_c.ci, _N_c.R - _N_R0) in _N_nl for _N_c in _N_prev))', 'expr')
    rep.ob('neighbour-window', mod, mc, 'a site joins a cluster only if every existing site is within the cutoff of it', ok,
           '' if ok else 'pairwise-distance condition weakened', engine='siblings', qual='makeclusters')


CL = 'onsager/cluster.py'
BREAKERS = [
    (CL, "            hashcache ^= hash(r + shiftpos)", "            hashcache ^= hash(r + tuple(cs.R))", 'cluster-hash-fold'),
    (CL, "                    clusterexp.append(clset)\n                    clusters.update(clset)\n    if maxorder < 2:", "                    clusterexp.append(clset)\n    if maxorder < 2:", None)
    if False else
    (CL, "            clusterexp.append(clset)\n            clusters.update(clset)\n    if maxorder < 2:", "            clusterexp.append(clset)\n    if maxorder < 2:", 'orbit-closure'),
    (CL, "                        clset = set([clnew.g(crys, g) for g in crys.G])", "                        clset = set([clnew.g(crys, g) for g in crys.pointG[0][0]])", 'orbit-closure'),
    (CL, "        if self.sites[0] == site1 - R1 and self.sites[1] == site0 - R1:", "        if self.sites[0] == site1 - R0 and self.sites[1] == site0 - R0:", 'transition-either-direction'),
    (CL, "        self.sites = tuple([cs-R0 for cs in lis])", "        self.sites = tuple([cs for cs in lis])", 'normalised-sites'),
    (CL, "        return self.__class__([cs.g(crys, g) for cs in self.sites], transition=self.__transition__, vacancy=self.__vacancy__)",
     "        return self.__class__([cs.g(crys, g) for cs in self.sites], transition=self.__transition__)", 'normalised-sites'),
    (CL, "                            for g in crys.G: TSclset.add(TSrev.g(crys, g))\n", "", 'orbit-closure'),
    (CL, "    nmax = [int(np.round(np.sqrt(r2/crys.metric[i, i]))) + 1\n            for i in range(crys.dim)]", "    nmax = [int(np.round(np.sqrt(r2/crys.metric[i, i])))\n            for i in range(crys.dim)]",
     'neighbour-window'),
]
NEUTRALS = []
