"""
E19 -- provenance naming.  Local variable names are the author's choice; what a rule needs is *where a value comes
from*.  ``Prov(fn)`` replaces, inside any fragment of a function in normal form, every local by the expression it was
bound from:

    x = <expr>   (only definition)  x      ->  <expr>                (also for impure right-hand sides: it names the value)
    for t in S / [.. for t in S]    t      ->  S[_]                  (an element of S; `_` is the anonymous position)
    for i, t in enumerate(S)        i      ->  _pos(S)               (the running position in S)
    for a, b in zip(A, B)           a, b   ->  A[_], B[_]
    for (i, j), dx in S             i      ->  S[_][0][0]            (structured targets give index paths)

recursively (cycle-safe), so that ``omega_ij[i, j] += symmrate`` reads
``omega_ij[self.jumpnetwork[_][_][0][0], self.jumpnetwork[_][_][0][1]] += self.symmratelist(...)[_][_]`` whatever the
locals are called.  A loop / comprehension variable is resolved by the innermost enclosing loop that binds it, so the
same name reused in two loops is no problem.  Names with several definitions, augmented assignments or element
stores (accumulators, loop-carried state) and parameters stay as they are; ``acc=True`` abstracts accumulator names to
``_ACC`` so that sibling fragments compare equal when they do the same thing to differently named arrays.
Variables bound by a comprehension inside the fragment itself are alpha-renamed (_b0, _b1 ...).
"""
import ast

from ..model import unparse
from . import shape
from .norm import clone, walk_local
from .linform import canon

_LOOPS = (ast.For, ast.AsyncFor)
_COMPS = (ast.ListComp, ast.SetComp, ast.GeneratorExp, ast.DictComp)


def _elem(src):
    return ast.Subscript(value=src, slice=ast.Name(id='_', ctx=ast.Load()), ctx=ast.Load())


def _idx(src, k):
    return ast.Subscript(value=src, slice=ast.Constant(value=k), ctx=ast.Load())


def _struct(t, src, out):
    """bind the names of a (possibly nested) target to index paths into ``src``."""
    if isinstance(t, ast.Name):
        out[t.id] = src
    elif isinstance(t, (ast.Tuple, ast.List)):
        for k, e in enumerate(t.elts):
            if isinstance(e, ast.Starred):
                _struct(e.value, None, out)
            else:
                _struct(e, _idx(src, k) if src is not None else None, out)
    elif isinstance(t, ast.Starred):
        _struct(t.value, None, out)


def header_bindings(target, it):
    """{name: provenance AST or None} for a ``for target in it`` header."""
    out = {}
    for t, s in shape.bindings(target, it):
        if isinstance(s, shape.Pos):
            src = ast.Call(func=ast.Name(id='_pos', ctx=ast.Load()), args=list(s.seqs), keywords=[])
        else:
            src = _elem(s)
        _struct(t, src, out)
    return out


class Prov:
    def __init__(self, fn):
        self.fn = fn
        a = fn.args
        self.params = {x.arg for x in a.posonlyargs + a.args + a.kwonlyargs}
        if a.vararg: self.params.add(a.vararg.arg)
        if a.kwarg: self.params.add(a.kwarg.arg)
        defs = {}       # function-level plain definitions: name -> [value or None]
        mutated = set()
        loopbound = set()
        for n in walk_local(fn):
            if isinstance(n, ast.Assign):
                for t in n.targets:
                    if isinstance(t, ast.Name):
                        defs.setdefault(t.id, []).append(n.value)
                    elif isinstance(t, (ast.Tuple, ast.List)):
                        tmp = {}
                        _struct(t, n.value, tmp)
                        for k, v in tmp.items():
                            defs.setdefault(k, []).append(v)
                    else:
                        r = shape.root(t)
                        if isinstance(r, ast.Name):
                            mutated.add(r.id)
            elif isinstance(n, ast.AugAssign):
                r = shape.root(n.target)
                if isinstance(r, ast.Name):
                    mutated.add(r.id)
            elif isinstance(n, _LOOPS):
                loopbound |= set(shape.target_names(n.target))
            elif isinstance(n, ast.NamedExpr):
                defs.setdefault(n.target.id, []).append(n.value)
            elif isinstance(n, ast.withitem) and n.optional_vars is not None:
                for nm in shape.target_names(n.optional_vars):
                    defs.setdefault(nm, []).append(None)
            elif isinstance(n, ast.ExceptHandler) and n.name:
                defs.setdefault(n.name, []).append(None)
            elif isinstance(n, ast.Call) and isinstance(n.func, ast.Attribute) and isinstance(n.func.value, ast.Name) \
                    and n.func.attr in ('append', 'extend', 'add', 'pop', 'insert', 'update', 'remove', 'sort', 'clear', 'discard', 'setdefault'):
                mutated.add(n.func.value.id)
        self.single = {}
        for name, ds in defs.items():
            if name in self.params or name in mutated or name in loopbound:
                continue
            if len(ds) == 1 and ds[0] is not None:
                self.single[name] = ds[0]
        self.accumulators = (mutated | {k for k, v in defs.items() if len(v) > 1}) - self.params

    # -- resolution of one name occurrence
    def _binding(self, node):
        """provenance AST of the Name occurrence ``node`` (an original tree node with parents), or None."""
        name = node.id
        child = node
        p = getattr(node, '_parent', None)
        while p is not None and p is not self.fn:
            if isinstance(p, _LOOPS) and child is not p.iter and child is not p.target:
                b = header_bindings(p.target, p.iter)
                if name in b:
                    return b[name], p
            elif isinstance(p, _COMPS):
                # generators bind left to right; the element sees all of them, a generator's iter / ifs see the earlier ones
                gens = p.generators
                limit = len(gens)
                for k, g in enumerate(gens):
                    if child is g:
                        limit = k + 1     # inside generator k: its own target is visible to its ifs, not to its iter
                        inner = node
                        q = node
                        while getattr(q, '_parent', None) is not g:
                            q = q._parent
                        if q is g.iter:
                            limit = k
                for g in reversed(gens[:limit]):
                    b = header_bindings(g.target, g.iter)
                    if name in b:
                        return 'bound', (g, b[name])
            elif isinstance(p, ast.Lambda):
                if name in {x.arg for x in p.args.args}:
                    return 'bound', None
            child = p
            p = getattr(p, '_parent', None)
        if name in self.single:
            return self.single[name], None
        return None

    def expand(self, node, acc=False, depth=10, keep_comp=True, _seen=frozenset()):
        """a copy of the original-tree fragment ``node`` with locals replaced by their provenance.  Comprehension
        variables bound inside the fragment are kept (alpha-renamed later) unless ``keep_comp`` is False."""
        prov = self
        inside = set()
        for n in ast.walk(node):
            if isinstance(n, ast.comprehension):
                inside.add(id(n))

        def rec(n, depth, seen):
            if isinstance(n, ast.Name) and isinstance(n.ctx, ast.Load):
                if depth > 0 and n.id not in seen and hasattr(n, '_parent'):
                    b = prov._binding(n)
                    if b is not None:
                        src, where = b
                        if src == 'bound':
                            if where is not None and (id(where[0]) not in inside or not keep_comp) and where[1] is not None:
                                return rec(where[1], depth - 1, seen | {n.id})
                            return ast.Name(id=n.id, ctx=ast.Load())
                        if src is not None:
                            return rec(src, depth - 1, seen | {n.id})
                if acc and n.id in prov.accumulators:
                    return ast.Name(id='_ACC', ctx=ast.Load())
                return ast.Name(id=n.id, ctx=ast.Load())
            if isinstance(n, ast.Name):
                if acc and n.id in prov.accumulators:
                    return ast.Name(id='_ACC', ctx=n.ctx)
                return ast.Name(id=n.id, ctx=n.ctx)
            if isinstance(n, list):
                return [rec(x, depth, seen) for x in n]
            if not isinstance(n, ast.AST):
                return n
            new = type(n)()
            for f in n._fields:
                if hasattr(n, f):
                    setattr(new, f, rec(getattr(n, f), depth, seen))
            for a in ('lineno', 'col_offset', 'end_lineno', 'end_col_offset'):
                if hasattr(n, a):
                    setattr(new, a, getattr(n, a))
            return new
        return rec(node, depth, _seen)

    def text(self, node, acc=False):
        """canonical text: provenance expansion, alpha-renamed comprehension variables, commutative normal form."""
        e = self.expand(node, acc)
        e = alpha_comprehensions(e)
        return canon(ast.fix_missing_locations(e))

    def of(self, name_node):
        """provenance text of a Name occurrence (original tree node)."""
        return self.text(name_node)

    def stmt_text(self, st, acc=False):
        if isinstance(st, ast.AugAssign):
            return '%s %s= %s' % (self.text(st.target, acc), type(st.op).__name__, self.text(st.value, acc))
        if isinstance(st, ast.Assign):
            return '%s := %s' % (' = '.join(self.text(t, acc) for t in st.targets), self.text(st.value, acc))
        if isinstance(st, ast.Expr):
            return 'expr %s' % self.text(st.value, acc)
        if isinstance(st, ast.Return):
            return 'return %s' % (self.text(st.value, acc) if st.value is not None else '')
        return unparse(st)


def alpha_comprehensions(tree):
    """rename variables bound by comprehensions / lambdas to _b0, _b1 ... in order of appearance (in place on a copy)."""
    counter = [0]

    def rec(n, env):
        if isinstance(n, _COMPS):
            env = dict(env)
            for g in n.generators:
                rec_expr(g.iter, env)
                for t in ast.walk(g.target):
                    if isinstance(t, ast.Name):
                        env[t.id] = '_b%d' % counter[0]
                        counter[0] += 1
                        t.id = env[t.id]
                for c in g.ifs:
                    rec_expr(c, env)
            if isinstance(n, ast.DictComp):
                rec_expr(n.key, env)
                rec_expr(n.value, env)
            else:
                rec_expr(n.elt, env)
            return
        if isinstance(n, ast.Name) and isinstance(n.ctx, ast.Load) and n.id in env:
            n.id = env[n.id]
            return
        for ch in ast.iter_child_nodes(n):
            rec(ch, env)

    def rec_expr(n, env):
        rec(n, env)
    rec(tree, {})
    return tree
