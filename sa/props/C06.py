"""
C06 -- tracer limit: solute identical to host gives exact tracer identities (structural clauses).

Not decided: Lsv = -L0vv, L1vv = 0 and the bounds on Lss (numerical).  Decided for ``maketracerpreene``:
  * the returned keys are parameters of preene2betafree, each key carries the array of the same name;
  * the solute and interaction terms are neutral: prefactors np.ones, energies np.zeros, sized by the site list
    and the thermodynamic stars;
  * every omega1 / omega2 transition state copies the host omega0 data of *its own recorded jump type*: arrays are
    sized by the omega-K network, filled in a loop over the omega-K jump types, prefactor from prefactor and energy
    from energy, indexed by the jump type -- and the omega1 and omega2 blocks never mix.
"""
import ast

from ..model import AnalysisError, dotted, unparse, walk_local
from ..engines import exchange, families
from .C01 import _alloc_family


def run(model, rep, tier):
    rep.explanation = __doc__.strip()
    rep.not_decided = 'the tracer identities themselves (Lsv = -L0vv, L1vv = 0, 0 <= Lss <= L0vv)'
    rep.rule('keys-are-parameters', 'returned keys are preene2betafree parameters and carry the array of the same name')
    rep.rule('neutral-solute', 'solute / interaction prefactors are ones, energies zeros, with the documented sizes')
    rep.rule('host-copy', 'omegaK transition data are copied from omega0 by the recorded jump type, pre<-pre, ene<-ene')
    mod = model.mod('OnsagerCalc')
    ci = model.cls('OnsagerCalc', 'VacancyMediated')
    fn = ci.methods.get('maketracerpreene')
    p2b = ci.methods.get('preene2betafree')
    if fn is None or p2b is None:
        raise AnalysisError('anchor vanished: VacancyMediated.maketracerpreene / preene2betafree')
    params = {a.arg for a in p2b.args.args}
    ret = [n for n in walk_local(fn) if isinstance(n, ast.Return) and isinstance(n.value, ast.Dict)]
    if len(ret) != 1:
        raise AnalysisError('maketracerpreene: dictionary return not found')
    keys = []
    for k, v in zip(ret[0].value.keys, ret[0].value.values):
        kk = k.value if isinstance(k, ast.Constant) else None
        keys.append(kk)
        ok = kk in params and unparse(v) == kk
        rep.ob('keys-are-parameters', mod, v, "maketracerpreene returns {'%s': %s}" % (kk, unparse(v)), ok,
               '' if ok else 'key is not a parameter of preene2betafree or carries another array', engine='tables')
    own = {a.arg for a in fn.args.args[1:]}
    need = params - {'kT'} - own - {'preV', 'eneV'}
    ok = set(keys) == need
    rep.ob('keys-are-parameters', mod, ret[0], 'returned keys %s = parameters not supplied by the caller %s' % (sorted(keys), sorted(need)), ok,
           '' if ok else 'missing %s / extra %s' % (sorted(need - set(keys)), sorted(set(keys) - need)), engine='tables')
    # neutral defaults
    want = {'preS': ('ones', 'len(self.sitelist)'), 'eneS': ('zeros', 'len(self.sitelist)'),
            'preSV': ('ones', 'self.thermo.Nstars'), 'eneSV': ('zeros', 'self.thermo.Nstars'),
            'preT1': ('ones', 'len(self.om1_jn)'), 'eneT1': ('zeros', 'len(self.om1_jn)'),
            'preT2': ('ones', 'len(self.om2_jn)'), 'eneT2': ('zeros', 'len(self.om2_jn)')}
    allocs = {}
    for n in fn.body:
        if isinstance(n, ast.Assign) and isinstance(n.targets[0], ast.Name) and isinstance(n.value, ast.Call):
            allocs[n.targets[0].id] = n
    for name, (ctor, size) in want.items():
        n = allocs.get(name)
        ok = n is not None and (dotted(n.value.func) or '').split('.')[-1] == ctor and n.value.args and unparse(n.value.args[0]) == size
        rep.ob('neutral-solute', mod, n or fn, '%s = np.%s(%s)' % (name, ctor, size), ok,
               '' if ok else 'default is not the neutral element / has another size: %s' % (unparse(n) if n is not None else 'missing'),
               engine='tables')
    # solute arrays are never written afterwards
    for n in walk_local(fn):
        if isinstance(n, (ast.Assign, ast.AugAssign)):
            for t, v in (exchange.split_assign(n) if isinstance(n, ast.Assign) else [(n.target, n.value)]):
                root = t
                while isinstance(root, ast.Subscript):
                    root = root.value
                if isinstance(root, ast.Name) and root.id in ('preS', 'eneS', 'preSV', 'eneSV') and isinstance(t, ast.Subscript):
                    rep.ob('neutral-solute', mod, n, unparse(n), False, 'the neutral solute / interaction data are modified', engine='tables')
    # host copy loops
    nloops = 0
    for lp in [x for x in fn.body if isinstance(x, ast.For)]:
        it = unparse(lp.iter)
        fams = {f for k, f in families.TYPES.items() if k in it}
        if len(fams) != 1:
            rep.ob('host-copy', mod, lp, 'loop over %s' % it, False, 'loop does not run over exactly one omega jump-type list', engine='tables')
            continue
        fam = sorted(fams)[0]
        nloops += 1
        # targets: j counts positions, jt is the recorded omega0 type
        tn = [unparse(t) for t in lp.target.elts] if isinstance(lp.target, ast.Tuple) else []
        an = [unparse(a) for a in lp.iter.args] if isinstance(lp.iter, ast.Call) else []
        ok = len(tn) == 2 and len(an) == 2 and an[0] in ('itertools.count()',) and an[1] in families.TYPES
        rep.ob('host-copy', mod, lp, '%s loop: (%s) over (%s)' % (fam, ', '.join(tn), ', '.join(an)), ok,
               '' if ok else 'position index and jump type are not drawn from (count, omegaK_jt)', engine='tables')
        if not ok:
            continue
        j, jt = tn
        for st in lp.body:
            for t, v in exchange.split_assign(st):
                root = t.value if isinstance(t, ast.Subscript) else t
                af = _alloc_family(fn, unparse(root))
                kind_t = unparse(root)[:3]
                okc = isinstance(t, ast.Subscript) and unparse(t.slice) == j and isinstance(v, ast.Subscript) and unparse(v.slice) == jt \
                    and unparse(v.value) == kind_t + 'T0' and af == fam
                rep.ob('host-copy', mod, st, '%s: %s <- %s' % (fam, unparse(t), unparse(v)), okc,
                       '' if okc else 'transition state %s does not receive the host %sT0 of its own jump type (array family %s)'
                       % (unparse(t), kind_t, af), engine='tables')
    rep.floor('host-copy loops', nloops, 2)


OC = 'onsager/OnsagerCalc.py'
BREAKERS = [
    (OC, "        preSV = np.ones(self.thermo.Nstars)\n        eneSV = np.zeros(self.thermo.Nstars)\n        preT1 = np.ones(len(self.om1_jn))\n        eneT1 = np.zeros(len(self.om1_jn))\n        for j, jt in zip(itertools.count(), self.om1_jt): preT1[j], eneT1[j] = preT0[jt], eneT0[jt]",
     "        preSV = np.zeros(self.thermo.Nstars)\n        eneSV = np.zeros(self.thermo.Nstars)\n        preT1 = np.ones(len(self.om1_jn))\n        eneT1 = np.zeros(len(self.om1_jn))\n        for j, jt in zip(itertools.count(), self.om1_jt): preT1[j], eneT1[j] = preT0[jt], eneT0[jt]",
     'neutral-solute'),
    (OC, "for j, jt in zip(itertools.count(), self.om2_jt): preT2[j], eneT2[j] = preT0[jt], eneT0[jt]",
     "for j, jt in zip(itertools.count(), self.om1_jt): preT2[j], eneT2[j] = preT0[jt], eneT0[jt]", 'host-copy'),
    (OC, "for j, jt in zip(itertools.count(), self.om1_jt): preT1[j], eneT1[j] = preT0[jt], eneT0[jt]",
     "for j, jt in zip(itertools.count(), self.om1_jt): preT1[j], eneT1[j] = preT0[j], eneT0[j]", 'host-copy'),
    (OC, "for j, jt in zip(itertools.count(), self.om1_jt): preT1[j], eneT1[j] = preT0[jt], eneT0[jt]",
     "for j, jt in zip(itertools.count(), self.om1_jt): preT1[j], eneT1[j] = eneT0[jt], preT0[jt]", 'host-copy'),
    (OC, "'preT1': preT1, 'eneT1': eneT1, 'preT2': preT2, 'eneT2': eneT2}\n\n    def makeLIMBpreene",
     "'preT1': preT1, 'eneT1': eneT1, 'preT2': preT1, 'eneT2': eneT2}\n\n    def makeLIMBpreene", 'keys-are-parameters'),
]
NEUTRALS = []
