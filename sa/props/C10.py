"""
C10 -- the lattice Green function solves the diffusion equation (structural clauses).

Not decided: the diffusion equation itself, the continuum pole, the scaling (numerical).  Decided:
  * exchange: the symmetric rate handed to the Fourier / Taylor machinery is symmetric in the two Wyckoff sets of a jump;
  * Taylor class selection: every use of the Taylor expansion class in GFcalc goes through the
    ``T3D if <crys>.dim == 3 else T2D`` idiom (no bare 3D class on a path 2D crystals take), and the HDF5 writer and
    reader build the same dimension tag;
  * the whole module is dimension-generic;
  * group average in __call__: the sum runs over the stored group operations and is divided by their number, both
    arrays being filled for every operation of the crystal;
  * SetRates is memoryless: every attribute it writes is written on every path before it is read, or is reused only under
    tests that depend on every argument the stored value depends on (G is a function of the current rates);
  * the state written by SetRates covers everything __call__, Diffusivity and biascorrection read (no observer reads an
    attribute that only another, unrelated routine sets).
"""
import ast

from ..model import AnalysisError, dotted, unparse, walk_local
from ..engines import exchange, dimgen, parity
from ..engines.linform import swap_sigma, canon, rename
from ._common import dim_generic, names_and_calls_resolve, memoryless_setters
from .C02 import _rate_element


def run(model, rep, tier):
    rep.explanation = __doc__.strip()
    from ._common import caches_for
    caches_for(model, rep, 'C10')
    rep.not_decided = 'that G solves the lattice diffusion equation, its far-field pole and its scaling (numerical)'
    rep.rule('exchange-symmetric', 'symmetric rate element invariant under swapping the two Wyckoff sets')
    rep.rule('taylor-selection', 'Taylor class chosen by the dimension idiom everywhere; HDF5 tag built alike in writer and reader')
    rep.rule('group-average', '__call__ sums over all stored group operations and divides by their number')
    rep.rule('state-complete', 'attributes read by the observers are written by __init__ or SetRates')
    mod = model.mod('GFcalc')
    ci = model.cls('GFcalc', 'GFCrystalcalc')
    gsym = ci.methods.get('SymmRates')
    if gsym is None:
        raise AnalysisError('anchor vanished: GFCrystalcalc.SymmRates')
    elt, pair = _rate_element(gsym)
    ok, a, b = exchange.symmetric_expr(elt, swap_sigma([pair]))
    rep.ob('exchange-symmetric', mod, elt, 'SymmRates element %s under %s<->%s' % (unparse(elt), *pair), ok,
           '' if ok else 'omega(q) is not Hermitian for non-uniform site energies: G is not symmetric under endpoint swap',
           engine='exchange', qual='GFCrystalcalc.SymmRates')
    # the zip that feeds the element: (w0, w1) from jumppairs, pT from preT, beT from betaeneT
    comp = [n for n in walk_local(gsym) if isinstance(n, ast.ListComp)]
    g = comp[0].generators[0]
    tn = [unparse(t) for t in g.target.elts]
    an = [unparse(x) for x in g.iter.args] if isinstance(g.iter, ast.Call) else []
    ok = an == ['self.jumppairs', 'preT', 'betaeneT'] and len(tn) == 3
    rep.ob('exchange-symmetric', mod, g.iter, 'SymmRates zips %s onto %s' % (an, tn), ok,
           '' if ok else 'transition prefactors / energies are bound in the wrong order', engine='tables', qual='GFCrystalcalc.SymmRates')
    # ---- Taylor selection
    nsel = 0
    for q, fn in mod.functions.items():
        if q.count('.') > 1:
            continue
        for n in walk_local(fn):
            if isinstance(n, ast.Assign) and isinstance(n.targets[0], ast.Name) and n.targets[0].id == 'Taylor':
                nsel += 1
                v = n.value
                ok = isinstance(v, ast.IfExp) and dimgen.dim_test(v.test) == (3, True) and unparse(v.body) == 'T3D' and unparse(v.orelse) == 'T2D'
                rep.ob('taylor-selection', mod, n, '%s: %s' % (q, unparse(n)), ok,
                       '' if ok else 'the Taylor class is not selected by the crystal dimension', engine='dimgen', qual=q)
    rep.floor('Taylor class selections', nsel, 7)
    tags = {}
    for m in ('addhdf5', 'loadhdf5'):
        fn = ci.methods.get(m)
        if fn is None:
            raise AnalysisError('anchor vanished: GFCrystalcalc.%s' % m)
        for n in walk_local(fn):
            if isinstance(n, ast.Assign) and unparse(n.targets[0]) == 'TaylorTag':
                tags[m] = canon(rename(n.value, {'self.crys': 'crys'}))
    ok = len(tags) == 2 and tags['addhdf5'] == tags['loadhdf5']
    rep.ob('taylor-selection', mod, ci.node, 'HDF5 Taylor tag: writer %s / reader %s' % (tags.get('addhdf5'), tags.get('loadhdf5')), ok,
           '' if ok else 'writer and reader derive the tag differently: 2D/3D files cannot be read back', engine='siblings')
    # ---- group average
    call = ci.methods.get('__call__')
    bd = ci.methods.get('BreakdownGroups')
    if call is None or bd is None:
        raise AnalysisError('anchor vanished: GFCrystalcalc.__call__ / BreakdownGroups')
    loops = [n for n in call.body if isinstance(n, ast.For)]
    ok = False
    if loops:
        it = unparse(loops[0].iter)
        div = [u for u in map(_update, call.body) if u and u[1] == 'Div' and unparse(u[2]) == 'self.NG']
        acc = [u for u in map(_update, loops[0].body) if u and u[1] == 'Add']
        ok = 'self.grouparray' in it and 'self.indexpair[i][j]' in it and len(div) == 1 and len(acc) == 1 \
            and div[0][0] == acc[0][0]
    rep.ob('group-average', mod, call, '__call__: sum over zip(self.grouparray, self.indexpair[i][j]) divided by self.NG', ok,
           '' if ok else 'the symmetrised inverse Fourier transform is not the average over the stored operations',
           engine='flow', qual='GFCrystalcalc.__call__')
    from ..engines import pattern
    ok = False
    for lp in [x for x in bd.body if isinstance(x, ast.For) and unparse(x.iter) == 'enumerate(self.crys.G)' and isinstance(x.target, ast.Tuple)]:
        ng_, g_ = [unparse(t) for t in lp.target.elts]
        ok = pattern.has(lp, '_N_ga[_N_ng, :, :] = _N_g.cartrot[:, :]', _N_ng=ng_, _N_g=g_) and \
            pattern.has(lp, '_N_im = _N_g.indexmap[self.chem]', _N_g=g_)
    rep.ob('group-average', mod, bd, 'BreakdownGroups fills rotation and index pair for every operation of crys.G', ok,
           '' if ok else 'group arrays are not filled from every operation', engine='flow', qual='GFCrystalcalc.BreakdownGroups')
    init = ci.methods['__init__']
    ng = [n for n in walk_local(init) if isinstance(n, ast.Assign) and unparse(n.targets[0]) == 'self.NG']
    ok = len(ng) == 1 and unparse(ng[0].value) == 'len(self.crys.G)'
    rep.ob('group-average', mod, ng[0] if ng else init, 'self.NG = len(self.crys.G)', ok, '' if ok else 'NG is not the group order',
           engine='flow', qual='GFCrystalcalc.__init__')
    # pairs are looked up with the symmetry-mapped indices and the rotated displacement
    ok = False
    if loops and isinstance(loops[0].target, ast.Tuple) and len(loops[0].target.elts) == 2:
        gop_ = unparse(loops[0].target.elts[0])
        pt = loops[0].target.elts[1]
        # the mapped site pair: ``pair`` used as pair[0], pair[1] -- or unpacked in the loop target as (gi, gj)
        want = '%s, %s' % tuple(unparse(x) for x in pt.elts) if isinstance(pt, ast.Tuple) and len(pt.elts) == 2 \
            else '%s[0], %s[1]' % (unparse(pt), unparse(pt))
        dxp = call.args.args[3].arg if len(call.args.args) > 3 else 'dx'
        ok = pattern.has(loops[0], 'self.gsc_ijq[%s]' % want, 'expr') and \
            pattern.has(loops[0], 'self.exp_dxq(np.dot(_N_gop, _N_dx))', 'expr', _N_gop=gop_, _N_dx=dxp)
    rep.ob('group-average', mod, call, '__call__: term uses gsc_ijq[pair[0], pair[1]] with exp(-i q.(gop dx))', ok,
           '' if ok else 'site pair and displacement are not transformed by the same operation', engine='flow',
           qual='GFCrystalcalc.__call__')
    # ---- state completeness
    written = set(parity.assigned_on_self(model, ci, parity.ctor_path(model, ci)))
    sr = ci.methods.get('SetRates')
    written |= set(parity.attrs_assigned_on(model, ci, sr, 'self'))
    for m in ('__call__', 'Diffusivity', 'biascorrection', 'exp_dxq', 'DiagGamma', 'BlockRotateOmegaTaylor', 'BlockInvertOmegaTaylor'):
        fn = ci.methods.get(m)
        if fn is None:
            raise AnalysisError('anchor vanished: GFCrystalcalc.%s' % m)
        missing = sorted(a for a in parity.self_reads(fn) if a not in written and not a.startswith('__'))
        rep.ob('state-complete', mod, fn, 'GFCrystalcalc.%s reads only attributes set by __init__/SetRates' % m, not missing,
               '' if not missing else 'reads %s which neither __init__ nor SetRates assigns' % missing, engine='parity',
               qual='GFCrystalcalc.' + m)
    # ---- SetRates is memoryless: G depends on the current rates only
    memoryless_setters(model, rep, [('GFcalc', 'GFCrystalcalc', 'SetRates')])
    from ._common import scale_free_tests
    scale_free_tests(model, rep, [('GFcalc', 'GFCrystalcalc', 'SetRates')])
    from ._common import inverse_map_placed
    inverse_map_placed(model, rep, [('GFcalc', 'GFCrystalcalc', '__init__', 'invmap')])
    # any early-return guard in the calculator compares every argument the skipped body reads (none exists today)
    from .C14 import _memo
    rep.rule('memo-key-complete', 'an early-return guard compares every parameter the skipped body reads')
    rep.rule('memo-identity-key', 'a guard keyed on object identity also compares attributes rewritten by every in-place mutator')
    _memo(model, rep, classes=[('GFcalc', 'GFCrystalcalc')], floor=0)
    dim_generic(model, rep, [('GFcalc', '')], min_functions=18)
    names_and_calls_resolve(model, rep, [('GFcalc', 'GFCrystalcalc.'), ('GFcalc', 'Fnl_p.'), ('GFcalc', 'Fnl_u.')])


def _update(st):
    """(target text, operator name, operand) of ``t op= e`` or of the spelled-out ``t = t op e`` (``t = e + t`` for +)."""
    if isinstance(st, ast.AugAssign):
        return unparse(st.target), type(st.op).__name__, st.value
    if isinstance(st, ast.Assign) and len(st.targets) == 1 and isinstance(st.value, ast.BinOp):
        t = unparse(st.targets[0])
        if unparse(st.value.left) == t:
            return t, type(st.value.op).__name__, st.value.right
        if isinstance(st.value.op, ast.Add) and unparse(st.value.right) == t:
            return t, 'Add', st.value.left
    return None


G = 'onsager/GFcalc.py'
BREAKERS = [
    (G, "pT * np.exp(0.5 * betaene[w0] + 0.5 * betaene[w1] - beT)", "pT * np.exp(betaene[w0] - beT)", 'exchange-symmetric'),
    (G, "        Taylor = T3D if self.crys.dim == 3 else T2D\n        D = np.zeros", "        Taylor = T3D\n        D = np.zeros", 'taylor-selection'),
    (G, "eta = np.zeros((self.N, self.crys.dim))", "eta = np.zeros((self.N, 3))", 'dimension-generic'),
    (G, "        gIFT /= self.NG", "        gIFT /= self.N", 'group-average'),
    (G, "TaylorTag = 'T3D' if crys.dim == 3 else 'T2D'", "TaylorTag = 'T3D'", 'taylor-selection'),
    (G, "self.exp_dxq(np.dot(gop, dx))", "self.exp_dxq(dx)", 'group-average'),
    (G, "        self.g_Taylor_fnlu = {(n, l): Fnl_u(n, l, self.pmax, prefactor, d=self.crys.dim)\n                              for (n, l) in self.g_Taylor.nl()}\n",
     "        if getattr(self, 'lastD', None) is None or not np.allclose(self.D / self.maxrate, self.lastD):\n            self.lastD = self.D / self.maxrate\n"
     "            self.g_Taylor_fnlu = {(n, l): Fnl_u(n, l, self.pmax, prefactor, d=self.crys.dim) for (n, l) in self.g_Taylor.nl()}\n", 'state-reuse-keyed'),
    (G, "        self.symmrate = self.SymmRates(pre, betaene, preT, betaeneT)\n", "        if getattr(self, 'lastpre', None) is pre: return\n        self.lastpre = pre\n        self.symmrate = self.SymmRates(pre, betaene, preT, betaeneT)\n",
     'memo-key-complete'),
]
BREAKERS += [
    (G, "        self.invmap = np.zeros(self.N, dtype=int)\n        for ind, w in enumerate(sitelist):\n            for i in w:\n                self.invmap[i] = ind",
     "        self.invmap = np.array([ind for ind, w in enumerate(sitelist) for i in w], dtype=int)", 'inverse-map-placed'),
]
NEUTRALS = [
    (G, "        self.invmap = np.zeros(self.N, dtype=int)\n        for ind, w in enumerate(sitelist):\n            for i in w:\n                self.invmap[i] = ind",
     "        invmap = np.zeros(self.N, dtype=int)\n        for ind, w in enumerate(sitelist):\n            for i in w:\n                invmap[i] = ind\n        self.invmap = invmap"),
    (G, "np.sqrt(pre[w0] * pre[w1])", "np.sqrt(pre[w1] * pre[w0])"),
]
