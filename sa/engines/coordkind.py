"""
E15 ``coordkind`` -- a small type system for coordinate kinds.

kinds:   'latt' integer lattice vector      'unit' unit-cell (direct) coordinates      'cart' Cartesian
         'zero' the zero vector (compatible with everything)
         operators: 'op:latt' (g.rot: latt->latt, unit->unit)   'op:cart' (g.cartrot)
                    'op:u2c' (lattice: unit->cart)              'op:c2u' (invlatt: cart->unit)
         None   unknown: no verdict
"""
import ast

from ..model import dotted, unparse, walk_local

VEC = ('latt', 'unit', 'cart', 'zero')
OPS = {'op:latt': ('U', 'U'), 'op:cart': ('C', 'C'), 'op:u2c': ('U', 'C'), 'op:c2u': ('C', 'U')}


class Typer:
    def __init__(self, env, crys_names=('self', 'crys'), g_names=('g', 'self', 'other'), fields=None):
        self.env = dict(env)  # name -> kind
        self.crys, self.g = set(crys_names), set(g_names)
        self.fields = fields or {}  # 'self.R' -> kind
        self.problems = []  # (node, message)
        self.checked = []  # (node, text) of operator applications / sums that were decided

    def attr_kind(self, e):
        t = unparse(e)
        if t in self.fields:
            return self.fields[t]
        if isinstance(e, ast.Attribute):
            base = unparse(e.value)
            if e.attr == 'lattice':
                return 'op:u2c'
            if e.attr == 'invlatt':
                return 'op:c2u'
            if e.attr == 'rot':
                return 'op:latt'
            if e.attr == 'cartrot':
                return 'op:cart'
            if e.attr == 'trans':
                return 'unit'
            if e.attr == 'T':
                k = self.kind(e.value)
                return k if k in ('op:cart', 'op:latt') else None
        return None

    def kind(self, e):
        if isinstance(e, ast.Name):
            return self.env.get(e.id)
        if isinstance(e, ast.Attribute):
            return self.attr_kind(e)
        if isinstance(e, ast.Subscript):
            # crys.basis[c][i] -> unit
            inner = e.value
            if isinstance(inner, ast.Subscript) and isinstance(inner.value, ast.Attribute) and inner.value.attr == 'basis':
                return 'unit'
            if isinstance(inner, ast.Name) and inner.id == 'basis' and self.env.get('basis') == 'unitlist':
                return 'unit'
            # element/slice of a typed tuple result: pos[0] of (latt, idx)
            k = self.kind(inner)
            if isinstance(k, tuple) and isinstance(e.slice, ast.Constant) and isinstance(e.slice.value, int) \
                    and e.slice.value < len(k):
                return k[e.slice.value]
            if k in VEC and isinstance(e.slice, ast.Slice):
                return k
            return None
        if isinstance(e, ast.UnaryOp) and isinstance(e.op, (ast.USub, ast.UAdd)):
            return self.kind(e.operand)
        if isinstance(e, ast.BinOp):
            if isinstance(e.op, (ast.Add, ast.Sub)):
                a, b = self.kind(e.left), self.kind(e.right)
                return self.combine(e, a, b)
            if isinstance(e.op, (ast.Mult, ast.Div)):
                a, b = self.kind(e.left), self.kind(e.right)
                if a in VEC and b is None:
                    return a
                if b in VEC and a is None and isinstance(e.op, ast.Mult):
                    return b
                return None
        if isinstance(e, ast.Call):
            return self.call(e)
        if isinstance(e, ast.Tuple):
            ks = tuple(self.kind(x) for x in e.elts)
            return ks
        return None

    def combine(self, node, a, b):
        if a is None or b is None or isinstance(a, tuple) or isinstance(b, tuple):
            return None
        if a.startswith('op:') or b.startswith('op:'):
            return None
        if a == 'zero':
            return b
        if b == 'zero':
            return a
        self.checked.append((node, '%s %s %s' % (a, '+' if isinstance(node.op, ast.Add) else '-', b)))
        if a == b:
            return a
        if {a, b} == {'latt', 'unit'}:
            return 'unit'
        self.problems.append((node, 'adds/subtracts a %s vector and a %s vector: %s' % (_name(a), _name(b), unparse(node)[:80])))
        return None

    def call(self, c):
        d = dotted(c.func) or ''
        last = d.split('.')[-1]
        if last == 'dot' and len(c.args) == 2 and d.split('.')[0] in ('np', 'numpy'):
            a, b = self.kind(c.args[0]), self.kind(c.args[1])
            if a is None or b is None:
                k = self.conjugation(c)
                if k:
                    return k
            return self.apply(c, a, b)
        if last in ('zeros', 'zeros_like') and d.split('.')[0] in ('np', 'numpy'):
            return 'zero'
        if last in ('round', 'rint', 'floor', 'around') and c.args:
            return self.kind(c.args[0])
        if last in ('incell', 'inhalf') and c.args:
            k = self.kind(c.args[0])
            if k == 'cart':
                self.problems.append((c, '%s() folds a Cartesian vector as if it were in unit-cell coordinates' % last))
            if k in ('unit', 'latt', 'zero'):
                self.checked.append((c, '%s(%s)' % (last, k)))
                return 'unit'
            return None
        if last == 'inv' and c.args:
            k = self.kind(c.args[0])
            return k if k in ('op:latt', 'op:cart') else ('op:c2u' if k == 'op:u2c' else 'op:u2c' if k == 'op:c2u' else None)
        if isinstance(c.func, ast.Attribute) and c.func.attr == 'astype':
            k = self.kind(c.func.value)
            if k == 'unit' and c.args and unparse(c.args[0]) == 'int':
                return 'latt'
            return k
        if isinstance(c.func, ast.Attribute) and c.func.attr == 'copy':
            return self.kind(c.func.value)
        if last == 'array' and c.args:
            return self.kind(c.args[0])
        return self.known_call(c)

    def conjugation(self, c):
        """lattice . X . invlatt  (either association) with X of unknown kind: the similarity transform that turns a matrix
        acting on unit-cell coordinates into the Cartesian operator -> 'op:cart'."""
        def isdot(e):
            return isinstance(e, ast.Call) and (dotted(e.func) or '').split('.')[-1] == 'dot' and len(e.args) == 2
        a, b = c.args
        if isdot(b) and self.kind(a) == 'op:u2c' and self.kind(b.args[1]) == 'op:c2u' and self.kind(b.args[0]) in (None, 'op:latt'):
            return 'op:cart'
        if isdot(a) and self.kind(b) == 'op:c2u' and self.kind(a.args[0]) == 'op:u2c' and self.kind(a.args[1]) in (None, 'op:latt'):
            return 'op:cart'
        return None

    SIGS = {  # method name -> ([param kinds after g/self], return kind)
        'pos2cart': (['latt', None], 'cart'), 'unit2cart': (['latt', 'unit'], 'cart'),
        'cart2unit': (['cart'], ('latt', 'unit')), 'cart2pos': (['cart'], ('latt', None)),
        'g_direc': ([None, 'cart'], 'cart'), 'g_pos': ([None, 'latt', None], ('latt', None)),
        'g_vect': ([None, 'latt', 'unit'], ('latt', 'unit')), 'g_cart': ([None, 'cart'], 'cart'),
    }

    def known_call(self, c):
        if isinstance(c.func, ast.Attribute) and c.func.attr in self.SIGS:
            params, ret = self.SIGS[c.func.attr]
            for p, a in zip(params, c.args):
                if p is None:
                    continue
                k = self.kind(a)
                if k is None or isinstance(k, tuple):
                    continue
                ok = k == p or k == 'zero' or (p == 'unit' and k == 'latt')
                self.checked.append((a, '%s(... %s: %s)' % (c.func.attr, p, k)))
                if not ok:
                    self.problems.append((a, '%s expects a %s vector here but receives a %s vector (%s)'
                                          % (c.func.attr, _name(p), _name(k), unparse(a)[:60])))
            return ret
        return None

    def apply(self, node, a, b):
        if a is None or b is None or isinstance(a, tuple) or isinstance(b, tuple):
            return None
        txt = 'np.dot(%s, %s)' % (a, b)
        if a in OPS and b in OPS:
            # operator composition A.B : B acts first; its codomain must be A's domain
            self.checked.append((node, txt))
            if OPS[a][0] != OPS[b][1]:
                self.problems.append((node, 'operators composed in an order whose domains do not match (%s after %s): %s'
                                      % (a, b, unparse(node)[:80])))
                return None
            res = (OPS[b][0], OPS[a][1])
            for k, v in OPS.items():
                if v == res:
                    return k
            return None
        if a == 'op:latt':
            self.checked.append((node, txt))
            if b in ('latt', 'unit', 'zero'):
                return b
            self.problems.append((node, 'the integer (lattice-coordinate) rotation is applied to a %s: %s' % (_name(b), unparse(node)[:80])))
            return None
        if a == 'op:cart':
            self.checked.append((node, txt))
            if b in ('cart', 'zero'):
                return 'cart'
            self.problems.append((node, 'the Cartesian rotation is applied to a %s: %s' % (_name(b), unparse(node)[:80])))
            return None
        if a == 'op:u2c':
            self.checked.append((node, txt))
            if b in ('latt', 'unit', 'zero'):
                return 'cart'
            self.problems.append((node, 'the lattice matrix (unit->Cartesian) is applied to a %s: %s' % (_name(b), unparse(node)[:80])))
            return None
        if a == 'op:c2u':
            self.checked.append((node, txt))
            if b in ('cart', 'zero'):
                return 'unit'
            self.problems.append((node, 'the inverse lattice matrix (Cartesian->unit) is applied to a %s: %s' % (_name(b), unparse(node)[:80])))
            return None
        if b == 'op:cart' and a in VEC:
            self.checked.append((node, txt))
            if a in ('cart', 'zero'):
                return 'cart'
            self.problems.append((node, 'a %s is multiplied by the Cartesian rotation: %s' % (_name(a), unparse(node)[:80])))
            return None
        return None


def _name(k):
    return {'latt': 'lattice (integer)', 'unit': 'unit-cell', 'cart': 'Cartesian', 'zero': 'zero'}.get(k, str(k))


def type_function(fn, param_kinds, fields=None, extra_env=None):
    """run the typer over the straight-line assignments and returns of ``fn``;
    returns (typer, [(return node, kind)])."""
    env = dict(param_kinds)
    if extra_env:
        env.update(extra_env)
    ty = Typer(env, fields=fields)
    rets = []
    ty.defs = {}
    for n in ast.walk(fn):
        if isinstance(n, ast.Assign) and len(n.targets) == 1 and isinstance(n.targets[0], ast.Name):
            ty.defs[n.targets[0].id] = n.value

    def visit(stmts):
        for st in stmts:
            if isinstance(st, ast.Assign):
                v = st.value
                t = st.targets[0]
                k = ty.kind(v)
                if isinstance(t, ast.Name):
                    ty.env[t.id] = k
                elif isinstance(t, ast.Tuple):
                    if isinstance(k, tuple) and len(k) == len(t.elts):
                        for e, kk in zip(t.elts, k):
                            _bind(ty, e, kk)
                    elif isinstance(v, ast.Tuple) and len(v.elts) == len(t.elts):
                        for e, vv in zip(t.elts, v.elts):
                            _bind(ty, e, ty.kind(vv))
            elif isinstance(st, ast.Return) and st.value is not None:
                rets.append((st, ty.kind(st.value)))
            elif isinstance(st, ast.Expr):
                ty.kind(st.value)
            elif isinstance(st, (ast.If, ast.For, ast.While, ast.With, ast.Try)):
                for fld in ('body', 'orelse', 'finalbody'):
                    visit(getattr(st, fld, []) or [])
                if isinstance(st, ast.If):
                    ty.kind(st.test)
            # keyword arguments of constructor calls in returns are typed by the caller
    visit(fn.body)
    return ty, rets


def _bind(ty, target, kind):
    if isinstance(target, ast.Name):
        ty.env[target.id] = kind
    elif isinstance(target, ast.Tuple) and isinstance(kind, tuple) and len(kind) == len(target.elts):
        for e, k in zip(target.elts, kind):
            _bind(ty, e, k)


def transposed(e):
    """syntactically transposed operand:  X.T,  X.transpose(),  np.transpose(X)"""
    if isinstance(e, ast.Attribute) and e.attr == 'T':
        return True
    if isinstance(e, ast.Call):
        if isinstance(e.func, ast.Attribute) and e.func.attr == 'transpose':
            return True
    return False


def rotation_sides(fn, ty):
    """every product  np.dot(a, b) / a @ b  in ``fn`` in which exactly one operand is a rotation operator (g.cartrot, g.rot,
    or a local typed as one) and the other is not an operator: yields (node, side, transposed?) with side 'left'/'right'.
    ``np.dot(v, R)`` with an untransposed R on the right is R^T v: the *inverse* rotation applied to v."""
    for c in ast.walk(fn):      # nested helper functions included
        if isinstance(c, ast.Call) and (dotted(c.func) or '').split('.')[-1] == 'dot' and len(c.args) == 2 and not c.keywords:
            a, b = c.args
        elif isinstance(c, ast.BinOp) and isinstance(c.op, ast.MatMult):
            a, b = c.left, c.right
        else:
            continue
        ka, kb = ty.kind(a), ty.kind(b)
        # lattice / inverse lattice on the right of real-space vectors (named as the docstrings name them: dx*, u*, x, v), singly
        # or stacked as rows of an array: the product applies the transposed matrix.  (Reciprocal-space vectors k, q, G are
        # legitimately multiplied from the left of the lattice and are not in the table.)
        if kb in ('op:u2c', 'op:c2u') and not transposed(b) and not (isinstance(ka, str) and ka.startswith('op:')):
            import re
            names = {n.id for n in ast.walk(a) if isinstance(n, ast.Name)}
            for n in list(names):
                d = ty.defs.get(n) if hasattr(ty, 'defs') else None
                if d is not None:
                    names |= {m.id for m in ast.walk(d) if isinstance(m, ast.Name)}
            if ka in VEC or any(re.fullmatch(r'dx\w*|u|u[0-9ijv]\w*|uvec|x|v', n) for n in names):
                yield c, 'right', False
                continue
        ra, rb = ka in ('op:cart', 'op:latt'), kb in ('op:cart', 'op:latt')
        oa, ob = isinstance(ka, str) and ka.startswith('op:'), isinstance(kb, str) and kb.startswith('op:')
        if ra and not ob:
            yield c, 'left', transposed(a)
        elif rb and not oa:
            yield c, 'right', transposed(b)
