"""
E3 ``memo`` -- early-return memo guards:  ``if <key test>: return [value]``  placed before the state writes
of a method, where the test compares parameters with the object's own stored state.
"""
import ast

from ..model import dotted, unparse, walk_local
from . import parity


class Guard:
    def __init__(self, fn, node, index):
        self.fn, self.node, self.index = fn, node, index
        self.compared_params = set()
        self.identity_keys = []  # (param, attr) compared with ==/is where the param is an object
        self.state_refs = set()


def _mentions_self_state(test, selfname):
    for n in ast.walk(test):
        if isinstance(n, ast.Attribute) and isinstance(n.value, ast.Name) and n.value.id == selfname:
            return True
        if isinstance(n, ast.Call) and dotted(n.func) == 'getattr' and n.args and isinstance(n.args[0], ast.Name) \
                and n.args[0].id == selfname:
            return True
    return False


def _relates_input_to_state(test, selfname):
    """some comparison (Compare, or an isclose/allclose/array_equal call) in the test has one operand built from a
    parameter/local and another built from stored state of self: the signature of a memo key test, as opposed to a
    precondition such as `self.N == 0`."""
    def has_input(e):
        return any(isinstance(n, ast.Name) and n.id != selfname and n.id not in ('np', 'getattr', 'None', 'True', 'False')
                   and not (isinstance(getattr(n, '_parent', None), ast.Attribute) and False)
                   for n in ast.walk(e) if not _inside_self_access(n, selfname))

    for n in ast.walk(test):
        ops = None
        if isinstance(n, ast.Compare) and len(n.ops) == 1:
            ops = [n.left, n.comparators[0]]
        elif isinstance(n, ast.Call) and (dotted(n.func) or '').split('.')[-1] in ('isclose', 'allclose', 'array_equal') \
                and len(n.args) >= 2:
            ops = n.args[:2]
        if ops:
            a, b = ops
            if (has_input(a) and _mentions_self_state(b, selfname) and not has_input(b)) or \
                    (has_input(b) and _mentions_self_state(a, selfname) and not has_input(a)):
                return True
    return False


def _inside_self_access(n, selfname):
    """Name nodes that are part of getattr(self, ...) / self.x are not inputs."""
    if isinstance(n, ast.Name) and n.id == selfname:
        return True
    p = getattr(n, '_parent', None)
    if isinstance(p, ast.Call) and dotted(p.func) == 'getattr' and p.args and p.args[0] is not n and n in p.args:
        return False
    return False


def find_guards(fn):
    """memo guards of ``fn``: top-level `if T: return ...` statements (no else) that precede every
    assignment to self.* and whose test relates a parameter to stored state of self."""
    if not fn.args.args:
        return []
    selfname = fn.args.args[0].arg
    params = [a.arg for a in fn.args.args[1:] + fn.args.kwonlyargs]
    out = []
    for i, st in enumerate(fn.body):
        if isinstance(st, ast.If) and not st.orelse and len(st.body) == 1 and isinstance(st.body[0], ast.Return):
            names = {n.id for n in ast.walk(st.test) if isinstance(n, ast.Name)}
            writes_after = any(isinstance(n, ast.Attribute) and isinstance(n.ctx, ast.Store) and isinstance(n.value, ast.Name)
                               and n.value.id == selfname for later in fn.body[i + 1:] for n in ast.walk(later))
            # a key test relating an input to stored state, or any state-dependent early return of a method that goes on to
            # rewrite the object's state (a regenerating method)
            if _relates_input_to_state(st.test, selfname) or (_mentions_self_state(st.test, selfname) and writes_after and params):
                g = Guard(fn, st, i)
                # parameters the test depends on, directly or through locals computed before the guard (a derived key)
                defs = {}
                for prev in fn.body[:i]:
                    for a in ast.walk(prev):
                        if isinstance(a, ast.Assign):
                            used = {x.id for x in ast.walk(a.value) if isinstance(x, ast.Name)}
                            for t in a.targets:
                                for x in ast.walk(t):
                                    if isinstance(x, ast.Name) and isinstance(x.ctx, ast.Store):
                                        defs.setdefault(x.id, set()).update(used)
                seen, todo = set(), list(names)
                while todo:
                    x = todo.pop()
                    if x not in seen:
                        seen.add(x)
                        todo.extend(defs.get(x, ()))
                g.compared_params = seen & set(params)
                out.append(g)
    return out


def params_read_after(fn, guard):
    """parameters read by the statements the guard skips (incl. nested functions/lambdas)."""
    params = [a.arg for a in fn.args.args[1:] + fn.args.kwonlyargs]
    used = {}
    for st in fn.body[guard.index + 1:]:
        for n in ast.walk(st):
            if isinstance(n, ast.Name) and isinstance(n.ctx, ast.Load) and n.id in params:
                used.setdefault(n.id, n)
    return used


def inplace_mutators(model, ci):
    """methods of the class (other than __init__) that assign self.* : {method: set(attrs)}"""
    out = {}
    for c in model.mro(ci):
        for name, fn in c.methods.items():
            if name == '__init__' or not fn.args.args or c.kind(name) != 'instance':
                continue
            attrs = set(parity.attrs_assigned_on(model, c, fn, fn.args.args[0].arg))
            # in-place container mutation of an attribute also counts
            s = fn.args.args[0].arg
            for n in walk_local(fn):
                if isinstance(n, (ast.AugAssign,)) and isinstance(n.target, ast.Attribute) \
                        and isinstance(n.target.value, ast.Name) and n.target.value.id == s:
                    attrs.add(n.target.attr)
            if attrs:
                out.setdefault(name, set()).update(attrs)
    return out


# ---------------------------------------------------------------- module-level caches
def module_caches(module):
    """names of module-level dictionaries (NAME = {} / dict())."""
    out = set()
    for st in module.tree.body:
        if isinstance(st, ast.Assign) and len(st.targets) == 1 and isinstance(st.targets[0], ast.Name):
            v = st.value
            if (isinstance(v, ast.Dict) and not v.keys) or (isinstance(v, ast.Call) and dotted(v.func) in ('dict', 'collections.OrderedDict')
                                                             and not v.args and not v.keywords):
                out.add(st.targets[0].id)
    return out


def cache_store_dependencies(fn, caches):
    """for every store  CACHE[key] = value  inside fn: (node, cache, names in key, parameters the value depends on).
    Dependencies are followed backwards through the local assignments of fn (names only, flow-insensitive)."""
    params = [a.arg for a in fn.args.args + fn.args.kwonlyargs]
    defs = {}
    for n in walk_local(fn):
        if isinstance(n, ast.Assign):
            names = []
            for t in n.targets:
                names += [x.id for x in ast.walk(t) if isinstance(x, ast.Name)]
            used = {x.id for x in ast.walk(n.value) if isinstance(x, ast.Name)}
            # attribute reads on parameters count as the parameter itself (self.i -> self)
            for nm in names:
                defs.setdefault(nm, set()).update(used)

    def closure(names):
        seen, todo = set(), list(names)
        while todo:
            x = todo.pop()
            if x in seen:
                continue
            seen.add(x)
            todo.extend(defs.get(x, ()))
        return seen

    out = []
    for n in walk_local(fn):
        if isinstance(n, ast.Assign) and isinstance(n.targets[0], ast.Subscript) and isinstance(n.targets[0].value, ast.Name) \
                and n.targets[0].value.id in caches:
            key_names = {x.id for x in ast.walk(n.targets[0].slice) if isinstance(x, ast.Name)}
            key_attrs = {unparse(x) for x in ast.walk(n.targets[0].slice) if isinstance(x, ast.Attribute)}
            val_names = closure({x.id for x in ast.walk(n.value) if isinstance(x, ast.Name)})
            dep_params = {p for p in params if p in val_names}
            out.append((n, n.targets[0].value.id, key_names, key_attrs, dep_params))
    return out


def local_memo_stores(fn):
    """memoisation inside a function:  `if K not in D: D[K] = V`  (no else branch touching D) for a local dict D.
    yield (if-node, D, key expr, loop variables the stored value depends on, loop variables the key depends on).
    Dependencies are followed through the local assignments of fn (names only)."""
    defs = {}
    loopvars = set()
    for n in walk_local(fn):
        if isinstance(n, ast.Assign):
            names = []
            for t in n.targets:
                names += [x.id for x in ast.walk(t) if isinstance(x, ast.Name) and isinstance(x.ctx, ast.Store)]
            used = {x.id for x in ast.walk(n.value) if isinstance(x, ast.Name)}
            for nm in names:
                defs.setdefault(nm, set()).update(used)
        if isinstance(n, ast.For):
            for x in ast.walk(n.target):
                if isinstance(x, ast.Name):
                    loopvars.add(x.id)

    def closure(names, stop=()):
        seen, todo = set(), list(names)
        while todo:
            x = todo.pop()
            if x in seen or x in stop:
                continue
            seen.add(x)
            if x not in loopvars:
                todo.extend(defs.get(x, ()))
        return seen

    for n in walk_local(fn):
        if not (isinstance(n, ast.If) and isinstance(n.test, ast.Compare) and len(n.test.ops) == 1
                and isinstance(n.test.ops[0], ast.NotIn) and isinstance(n.test.comparators[0], ast.Name) and not n.orelse):
            continue
        d = n.test.comparators[0].id
        key = n.test.left
        stores = [s for s in n.body if isinstance(s, ast.Assign) and isinstance(s.targets[0], ast.Subscript)
                  and unparse(s.targets[0].value) == d and unparse(s.targets[0].slice) == unparse(key)]
        if len(stores) != 1 or len(n.body) != 1:
            continue
        knames = {x.id for x in ast.walk(key) if isinstance(x, ast.Name)}
        vnames = {x.id for x in ast.walk(stores[0].value) if isinstance(x, ast.Name)}
        kdeps = closure(knames) & loopvars
        vdeps = closure(vnames, stop={d}) & loopvars
        # comprehension-local variables of the value are not dependencies
        comp = {x.id for c in ast.walk(stores[0].value) if isinstance(c, ast.comprehension) for x in ast.walk(c.target) if isinstance(x, ast.Name)}
        yield n, d, key, vdeps - comp, kdeps


# ---------------------------------------------------------------- conditional reuse of stored state
def _self_attr(n, selfname):
    return isinstance(n, ast.Attribute) and isinstance(n.value, ast.Name) and n.value.id == selfname


def _terminates(block):
    return bool(block) and isinstance(block[-1], (ast.Return, ast.Raise, ast.Continue, ast.Break))


class Reuse:
    """one attribute of the object that a state-setting method may carry over from an earlier call."""
    def __init__(self, attr, node, how):
        self.attr, self.node, self.how = attr, node, how
        self.value_deps = set()   # parameters the (re)computed value depends on
        self.guard_deps = set()   # parameters the tests controlling the recomputation depend on
        self.guards = []


def state_reuse(fn, skip_guards=()):
    """A state-setting method ``fn(self, *params)`` is *memoryless* when every attribute it assigns is assigned on every
    path before it is read, so that the object's rate-dependent state after the call is a function of the arguments (and
    of state the method never writes).  For every attribute ``a`` in the method's own write set that is read (directly:
    ``self.a``, ``k in self.a``, ``self.a[k]``, ``self.a.get``) before it has been assigned on all paths, or that is only
    assigned under a condition, return a ``Reuse`` with
      value_deps : parameters the stored value(s) of ``a`` depend on (through locals and through other attributes written
                   by the method), and
      guard_deps : parameters the conditions that decide between keeping and recomputing depend on.
    Reuse is sound only if value_deps <= guard_deps.  Reads inside the tests of ``skip_guards`` (early-return memo guards,
    judged by their own rule) are ignored.  Flow-sensitive on the structured AST; names only."""
    if not fn.args.args:
        return []
    s = fn.args.args[0].arg
    params = {a.arg for a in fn.args.args[1:] + fn.args.kwonlyargs}
    skip = {id(g) for g in skip_guards}
    # write set (rebinding or in-place store through a subscript / augmented assignment)
    wset = {}
    for n in walk_local(fn):
        if _self_attr(n, s) and isinstance(n.ctx, ast.Store):
            wset.setdefault(n.attr, []).append(n)
        if isinstance(n, ast.Subscript) and isinstance(n.ctx, ast.Store) and _self_attr(n.value, s):
            wset.setdefault(n.value.attr, []).append(n)
    if not wset:
        return []
    # sub-objects updated through a method call with arguments (self.kinetic.generate(N + 1)): what they hold afterwards
    # depends on those arguments.  They only feed the dependency closure; they are not part of the write set.
    mutated = {}
    for n in walk_local(fn):
        if isinstance(n, ast.Call) and isinstance(n.func, ast.Attribute) and _self_attr(n.func.value, s) and (n.args or n.keywords) \
                and isinstance(getattr(n, '_parent', None), ast.Expr):
            mutated.setdefault(n.func.value.attr, []).append(n)
    # dependency closure: locals and written attributes -> parameters
    defs = {}

    def add_def(name, value_names):
        defs.setdefault(name, set()).update(value_names)

    def names_of(e):
        out = set()
        for x in ast.walk(e):
            if isinstance(x, ast.Name) and x.id != s:
                out.add(x.id)
            elif _self_attr(x, s) and (x.attr in wset or x.attr in mutated):
                out.add('self.' + x.attr)
        return out

    for attr, calls in mutated.items():
        for c in calls:
            used = set()
            for a in list(c.args) + [k.value for k in c.keywords]:
                used |= names_of(a)
            add_def('self.' + attr, used - {'self.' + attr})

    for n in walk_local(fn):
        if isinstance(n, (ast.Assign, ast.AugAssign, ast.AnnAssign)) and getattr(n, 'value', None) is not None:
            tgts = n.targets if isinstance(n, ast.Assign) else [n.target]
            used = names_of(n.value)
            for t in tgts:
                for x in ast.walk(t):
                    if isinstance(x, ast.Name) and isinstance(x.ctx, ast.Store):
                        add_def(x.id, used)
                    elif _self_attr(x, s) and isinstance(x.ctx, ast.Store):
                        add_def('self.' + x.attr, used)
                    elif isinstance(x, ast.Subscript) and isinstance(x.ctx, ast.Store):
                        base = x.value
                        key = names_of(x.slice)
                        if _self_attr(base, s):
                            add_def('self.' + base.attr, used | key)
                        elif isinstance(base, ast.Name):
                            add_def(base.id, used | key)
        elif isinstance(n, (ast.For, ast.comprehension)):
            used = names_of(n.iter)
            for x in ast.walk(n.target):
                if isinstance(x, ast.Name):
                    add_def(x.id, used)
        elif isinstance(n, ast.Call) and isinstance(n.func, ast.Attribute) and n.func.attr in ('append', 'extend', 'update', 'add', 'insert', 'setdefault'):
            used = set()
            for a in n.args:
                used |= names_of(a)
            b = n.func.value
            if _self_attr(b, s):
                add_def('self.' + b.attr, used)
            elif isinstance(b, ast.Name):
                add_def(b.id, used)

    def closure(names, stop=()):
        seen, todo = set(), list(names)
        while todo:
            x = todo.pop()
            if x in seen or x in stop:
                continue
            seen.add(x)
            todo.extend(defs.get(x, ()))
        return seen

    # definite assignment, in program order
    found = {}

    def reads_in(e, assigned, conds):
        for x in ast.walk(e):
            if _self_attr(x, s) and isinstance(x.ctx, ast.Load) and x.attr in wset and x.attr not in assigned:
                # a Load that is the base of a subscript *store* is a partial update of old state, too
                r = found.setdefault(x.attr, Reuse(x.attr, x, 'read before it is assigned on every path'))
                r.guards.extend(c for c in conds if c not in r.guards)

    def stores_in(st):
        out = set()
        tgts = st.targets if isinstance(st, ast.Assign) else [st.target] if isinstance(st, (ast.AnnAssign,)) else []
        for t in tgts:
            for x in ([t] if not isinstance(t, (ast.Tuple, ast.List)) else t.elts):
                if _self_attr(x, s):
                    out.add(x.attr)
        return out

    def block(stmts, assigned, conds):
        assigned = set(assigned)
        for st in stmts:
            if isinstance(st, ast.If):
                if id(st) in skip:
                    continue
                reads_in(st.test, assigned, conds + [st.test])
                a1 = block(st.body, assigned, conds + [st.test])
                a2 = block(st.orelse, assigned, conds + [st.test])
                if _terminates(st.body) and not _terminates(st.orelse):
                    assigned = a2
                elif _terminates(st.orelse) and st.orelse and not _terminates(st.body):
                    assigned = a1
                else:
                    assigned = a1 & a2
                # attributes assigned on one side only are carried over on the other: the tests decide
                for a in (a1 ^ a2) - assigned:
                    if not (_terminates(st.body) or _terminates(st.orelse)):
                        r = found.setdefault(a, Reuse(a, st, 'assigned only under a condition'))
                        if st.test not in r.guards:
                            r.guards.append(st.test)
            elif isinstance(st, (ast.For, ast.While)):
                reads_in(st.iter if isinstance(st, ast.For) else st.test, assigned, conds)
                block(st.body, assigned, conds)     # the body may run zero times: nothing becomes definitely assigned
                block(st.orelse, assigned, conds)
            elif isinstance(st, (ast.With,)):
                for it in st.items:
                    reads_in(it.context_expr, assigned, conds)
                assigned = block(st.body, assigned, conds)
            elif isinstance(st, ast.Try):
                block(st.body, assigned, conds)
                for h in st.handlers:
                    block(h.body, assigned, conds)
                assigned = block(st.finalbody, assigned, conds)
            elif isinstance(st, (ast.FunctionDef, ast.ClassDef)):
                continue
            else:
                v = getattr(st, 'value', None)
                if isinstance(st, ast.AugAssign):
                    reads_in(st.target, assigned, conds) if not isinstance(st.target, ast.Name) else None
                    if _self_attr(st.target, s) and st.target.attr in wset and st.target.attr not in assigned:
                        found.setdefault(st.target.attr, Reuse(st.target.attr, st, 'updated in place from its previous value')) \
                            .guards.extend(c for c in conds if c not in found[st.target.attr].guards)
                if v is not None:
                    reads_in(v, assigned, conds)
                for t in (st.targets if isinstance(st, ast.Assign) else []):
                    # loads inside a store target: self.a[k] = v reads self.a
                    for x in ast.walk(t):
                        if isinstance(x, ast.Subscript) and isinstance(x.ctx, ast.Store):
                            reads_in(x.value, assigned, conds)
                            reads_in(x.slice, assigned, conds)
                if isinstance(st, ast.Expr):
                    pass
                assigned |= stores_in(st)
        return assigned

    block(fn.body, set(), [])
    out = []
    for a, r in sorted(found.items()):
        vals = set()
        for w in wset[a]:
            st = w
            while not isinstance(st, ast.stmt):
                st = st._parent
            if getattr(st, 'value', None) is not None:
                vals |= names_of(st.value)
            if isinstance(w, ast.Subscript):
                vals |= names_of(w.slice)
        r.value_deps = closure(vals, stop={'self.' + a}) & params
        g = set()
        for t in r.guards:
            g |= names_of(t)
        r.guard_deps = closure(g, stop={'self.' + a}) & params
        out.append(r)
    return out
