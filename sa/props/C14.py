"""
C14 -- vacancy-mediated results depend only on their inputs, not on call history (structural clauses).

Decides:
  * alias / return-escape: no tensor returned by ``VacancyMediated.Lij`` shares storage with a cache entry,
    a stored attribute (own or of the Green-function calculator) or an argument -- so a caller editing a
    returned array cannot change a later result;
  * alias / write-through: no in-place write in Lij (and in the data-preparation routines
    preene2betafree, _symmetricandescaperates, makeLIMBpreene, maketracerpreene, tags2preene) reaches an
    argument, a stored attribute or a cache entry, nor a local array still shared with another live name;
  * state dominance: every read of rate-dependent state of the Green-function calculator in Lij is preceded,
    in the same block, by SetRates for the *current* key; hit and miss paths agree on which variable belongs to
    which cache, all under one key;
  * memo: every early-return guard of VacancyMediated / GFCrystalcalc / VectorStarSet compares every parameter
    that the skipped body reads, and a guard keyed on the identity of a mutable repository object also compares
    attributes that every in-place mutator of that object rewrites;
  * memoryless setters: SetRates, generate, generatematrices, Lij, VectorStarSet.generate and StarSet.generate write every
    attribute before reading it, or reuse a stored one only under tests that depend on every argument it depends on;
  * cache invalidation: a method that replaces what cache entries are indexed by (GFstarset, NGFmax) clears the caches.
Not decided: numerical equality of results.
"""
import ast

from ..model import AnalysisError, dotted, unparse, walk_local
from ..engines import alias, memo

API = ('OnsagerCalc', 'VacancyMediated', 'Lij')
PURITY = ['preene2betafree', '_symmetricandescaperates', 'makeLIMBpreene', 'maketracerpreene', 'tags2preene']
MEMO_CLASSES = [('OnsagerCalc', 'VacancyMediated'), ('GFcalc', 'GFCrystalcalc'), ('crystalStars', 'VectorStarSet')]
# (class, method, parameter) -> reason the parameter may be left out of a memo key
MEMO_EXEMPT = {('VectorStarSet', 'generate', 'threshold'): 'numerical tolerance; every caller in the package uses the default'}
# parameter-name typing for identity keys (confirmed by reading the callers)
PARAM_TYPES = {'starset': ('crystalStars', 'StarSet'), 'SSet': ('crystalStars', 'StarSet')}
CACHES = ('GFvalues', 'Lvvvalues', 'etavvalues')
# methods whose job is to (re)compute state from their arguments: what they leave behind may not depend on earlier calls
MEMORYLESS = [('GFcalc', 'GFCrystalcalc', 'SetRates'), ('OnsagerCalc', 'VacancyMediated', 'generate'),
              ('OnsagerCalc', 'VacancyMediated', 'generatematrices'), ('OnsagerCalc', 'VacancyMediated', 'Lij'),
              ('crystalStars', 'VectorStarSet', 'generate'), ('crystalStars', 'StarSet', 'generate')]


def _typed(model):
    return {'self.GFcalc': model.cls('GFcalc', 'GFCrystalcalc'), 'self.vkinetic': model.cls('crystalStars', 'VectorStarSet'),
            'self.kinetic': model.cls('crystalStars', 'StarSet'), 'self.thermo': model.cls('crystalStars', 'StarSet'),
            'self.GFstarset': model.cls('crystalStars', 'StarSet')}


def run(model, rep, tier):
    rep.explanation = __doc__.strip()
    from ._common import caches_for
    caches_for(model, rep, 'C14')
    rep.not_decided = 'numerical equality of results; effects of editing attributes of the calculator from outside'
    rep.rule('return-escape', 'a value returned by Lij has only fresh allocation tokens')
    rep.rule('write-through', 'an in-place write never reaches an argument, stored attribute, cache entry, or a live local alias')
    rep.rule('state-dominated-by-SetRates', 'reads of rate-dependent Green-function state follow SetRates(current key) in the same block')
    rep.rule('cache-key-coherence', 'each cache is read and written with the one key, and feeds / is fed from the same variable')
    rep.rule('memo-key-complete', 'an early-return guard compares every parameter the skipped body reads')
    rep.rule('memo-identity-key', 'a guard keyed on object identity also compares attributes rewritten by every in-place mutator')
    rep.rule('cache-invalidation', 'methods that replace GFstarset / NGFmax clear the caches afterwards')
    mod = model.mod(API[0])
    ci = model.cls(API[0], API[1])
    fn = ci.methods.get(API[2])
    if fn is None:
        raise AnalysisError('anchor vanished: VacancyMediated.Lij')
    summaries = {}
    an = alias.Analyzer(model, mod, ci, summaries, depth=2, typed=_typed(model))
    an.extra_lists = {'self.OSindices'}
    res = an.run(fn)
    # ---- return escape
    finals = [r for r in res.returns]
    if not finals:
        raise AnalysisError('VacancyMediated.Lij: no return statement')
    nret = 0
    for ret, toks, elts in finals:
        for e, t in zip(elts, toks):
            nret += 1
            bad = sorted(x for x in t if not (x.startswith('F@') or x == 'C'))
            hard = [x for x in bad if x.startswith(('A:', 'E:', 'P:'))]
            if bad and not hard:
                raise AnalysisError('Lij: provenance of returned %s not resolved (%s)' % (unparse(e), bad))
            rep.ob('return-escape', mod, ret, 'Lij returns %s' % unparse(e), not hard,
                   '' if not hard else 'the returned array is %s: editing it in place changes what later calls return'
                   % ', '.join(_tokname(x) for x in hard), engine='alias', qual='VacancyMediated.Lij')
    rep.floor('returned tensors', nret, 4)
    # ---- write-through in Lij
    nw = _writes(rep, mod, fn, res, 'VacancyMediated.Lij')
    rep.floor('in-place writes analysed in Lij', nw, 14)
    for name in PURITY:
        f2 = ci.methods.get(name)
        if f2 is None:
            raise AnalysisError('anchor vanished: VacancyMediated.%s' % name)
        a2 = alias.Analyzer(model, mod, ci, summaries, depth=1, typed=_typed(model))
        r2 = a2.run(f2)
        _writes(rep, mod, f2, r2, 'VacancyMediated.' + name)
        # returned containers must not be the arguments themselves
        for ret, toks, elts in r2.returns:
            for e, t in zip(elts, toks):
                hard = [x for x in t if x.startswith('P:')]
                rep.ob('return-escape', mod, ret, '%s returns %s' % (name, unparse(e)[:80]), not hard,
                       '' if not hard else 'returns the caller\'s own array %s: a later in-place shift edits the input'
                       % ', '.join(hard), engine='alias', qual='VacancyMediated.' + name)
    # cache stores (informational listing)
    for node, path, toks in res.stores:
        rep.note('store %s <- %s (line %d)' % (path, sorted(_tokname(t) for t in toks), node.lineno))
    _entries_stable(model, rep, mod, ci, res)
    _dominance(model, rep, mod, ci, fn)
    _keyhash(model, rep, mod)
    _memo(model, rep)
    _invalidation(model, rep, mod, ci)
    from ._common import memoryless_setters
    memoryless_setters(model, rep, MEMORYLESS)
    rep.count('callee summaries', len(summaries))


def _tokname(t):
    if t.startswith('A:'):
        return 'the stored attribute ' + t[2:]
    if t.startswith('E:'):
        return 'an entry of ' + t[2:]
    if t.startswith('P:'):
        return 'the argument ' + t[2:]
    return t


def _writes(rep, mod, fn, res, qual):
    n = 0
    for w in res.writes:
        n += 1
        hard = sorted(t for t in w.tokens if t.startswith(('A:', 'E:', 'P:')))
        txt = '%s: %s' % (w.kind, unparse(w.node)[:110])
        if hard:
            rep.ob('write-through', mod, w.node, txt, False,
                   'in-place write to %s, which is %s' % (w.name, ', '.join(_tokname(t) for t in hard)), engine='alias',
                   qual=qual)
            continue
        # local aliases: another live name sharing an allocation token
        env = _env_for(res, w.node)
        shared = []
        for other, toks in (env or {}).items():
            if other == w.name:
                continue
            common = {t for t in toks & w.tokens if t.startswith('F@')}
            if common and alias.live_after(fn, other, w.node):
                shared.append(other)
        rep.ob('write-through', mod, w.node, txt, not shared,
               '' if not shared else 'in-place write to %s also changes %s, which shares its storage and is used later'
               % (w.name, ', '.join(sorted(shared))), engine='alias', qual=qual)
    return n


def _env_for(res, node):
    n = node
    while n is not None:
        if id(n) in res.env_at:
            return res.env_at[id(n)]
        n = getattr(n, '_parent', None)
    return None


# ---------------------------------------------------------------- cache entries are never edited after they were stored
def _inplace_writers(model, owner_ci, attr):
    """methods of ``owner_ci`` (other than constructors/loaders) that modify the array held in ``self.<attr>`` in place --
    directly (``self.a[...] = / self.a += / self.a.fill``) or through a local alias (``D = self.a ; D *= x``).  Rebinding
    ``self.a = <new array>`` is not a modification of the old one."""
    out = []
    for c in model.mro(owner_ci):
        for name, fn in c.methods.items():
            if c.kind(name) != 'instance' or not fn.args.args:
                continue
            an = alias.Analyzer(model, c.module, c, {}, depth=0)
            r = an.run(fn)
            tok = 'A:self.' + attr
            for w in r.writes:
                if tok in w.tokens or ('E:self.' + attr) in w.tokens:
                    out.append((c, name, w.node, 'through the local %s' % w.name))
            for node, path, toks in r.stores:
                base = path.split('[')[0].split('.')
                if base[:2] == ['self', attr] and (path != 'self.' + attr or isinstance(node, ast.AugAssign)):
                    # self.a[...] = v ; self.a[...] op= v ; self.a op= v ; self.a.fill(...)   (not: self.a = v)
                    if name == '__init__' and not isinstance(node, ast.AugAssign):
                        continue
                    out.append((c, name, node, 'directly'))
    return out


def _entries_stable(model, rep, mod, ci, res):
    rep.rule('cache-entry-stable', 'an array stored in a cache is a fresh copy, or the attribute it aliases is only ever rebound, '
                                   'never modified in place')
    typed = _typed(model)
    n = 0
    for node, path, toks in res.stores:
        cname = path.split('[')[0][5:] if path.startswith('self.') else None
        if cname not in CACHES or not path.endswith('[]'):
            continue
        n += 1
        problems = []
        for t in sorted(toks):
            if not t.startswith('A:self.'):
                continue
            parts = t[2:].split('.')          # self, GFcalc, D    |  self, x
            owner, attr = (typed.get('.'.join(parts[:-1])), parts[-1]) if len(parts) > 2 else (ci, parts[-1])
            if owner is None:
                continue
            for c, meth, wnode, how in _inplace_writers(model, owner, attr):
                problems.append('%s.%s line %d modifies self.%s in place (%s)' % (c.name, meth, wnode.lineno, attr, how))
        rep.ob('cache-entry-stable', mod, node, '%s entry <- %s' % (cname, sorted(_tokname(t) for t in toks if t != 'C')), not problems,
               '' if not problems else 'the cached entry shares storage with an attribute that is later overwritten in place: every '
               'entry stored so far changes with the next input (%s)' % '; '.join(problems[:3]), engine='alias', qual='VacancyMediated.Lij')
    rep.floor('cache stores in Lij', n, 3)


# ---------------------------------------------------------------- state dominance / cache coherence
def _dominance(model, rep, mod, ci, fn):
    gf = model.cls('GFcalc', 'GFCrystalcalc')
    setrates = gf.methods.get('SetRates')
    if setrates is None:
        raise AnalysisError('anchor vanished: GFCrystalcalc.SetRates')
    from ..engines import parity
    state = set(parity.attrs_assigned_on(model, gf, setrates, 'self'))
    observers = set()
    for name, m in gf.methods.items():
        if name in ('SetRates', '__init__', 'loadhdf5', 'addhdf5'):
            continue
        if set(parity.self_reads(m)) & state:
            observers.add(name)
    rep.note('rate-dependent observers of GFCrystalcalc: %s' % sorted(observers))
    if not {'Diffusivity', 'biascorrection', '__call__'} <= observers:
        raise AnalysisError('observer inference lost Diffusivity/biascorrection/__call__')
    # key variable: the local bound to vacancyThermoKinetics(...)
    key = None
    for n in walk_local(fn):
        if isinstance(n, ast.Assign) and isinstance(n.value, ast.Call) and dotted(n.value.func) == 'vacancyThermoKinetics' \
                and isinstance(n.targets[0], ast.Name):
            key = n.targets[0].id
    if key is None:
        raise AnalysisError('Lij: cache key construction not found')
    nobs = 0
    for c in walk_local(fn):
        if not isinstance(c, ast.Call):
            continue
        f = c.func
        meth = None
        if isinstance(f, ast.Attribute) and unparse(f.value) == 'self.GFcalc' and f.attr in observers:
            meth = f.attr
        elif unparse(f) == 'self.GFcalc' and '__call__' in observers:
            meth = '__call__'
        if meth is None:
            continue
        nobs += 1
        # the enclosing statement list and the statements before this one
        st = c
        while not (isinstance(getattr(st, '_parent', None), (ast.If, ast.For, ast.While, ast.FunctionDef, ast.With, ast.Try))
                   and isinstance(st, ast.stmt)):
            st = st._parent
        par = st._parent
        block = par.body if st in par.body else getattr(par, 'orelse', [])
        before = block[:block.index(st)]
        ok = False
        for b in before:
            if not isinstance(b, (ast.Expr, ast.Assign)):
                continue  # a SetRates nested in an earlier conditional does not dominate this read
            for x in ast.walk(b):
                if isinstance(x, ast.Call) and unparse(x.func) == 'self.GFcalc.SetRates':
                    ok = any(isinstance(y, ast.Name) and y.id == key for y in ast.walk(x))
        rep.ob('state-dominated-by-SetRates', mod, c, 'self.GFcalc.%s(...) after SetRates(%s)' % (meth, key), ok,
               '' if ok else 'reads Green-function state that belongs to whatever input was evaluated last, not to the '
                             'current one', engine='flow', qual='VacancyMediated.Lij')
    rep.floor('Green-function state reads in Lij', nobs, 3)
    # cache coherence: X = self.C.get(key)  <->  self.C[key] = X'
    reads, stores = {}, {}
    for n in walk_local(fn):
        if isinstance(n, ast.Assign) and isinstance(n.targets[0], ast.Name):
            v = n.value
            # X = self.C.get(key)   or   X = self.C[key]
            if isinstance(v, ast.Call) and isinstance(v.func, ast.Attribute) and v.func.attr == 'get' \
                    and unparse(v.func.value).startswith('self.') and unparse(v.func.value)[5:] in CACHES and v.args:
                reads[unparse(v.func.value)[5:]] = (n.targets[0].id, unparse(v.args[0]), n)
            elif isinstance(v, ast.Subscript) and unparse(v.value).startswith('self.') and unparse(v.value)[5:] in CACHES:
                reads[unparse(v.value)[5:]] = (n.targets[0].id, unparse(v.slice), n)
        if isinstance(n, ast.Assign) and isinstance(n.targets[0], ast.Subscript) \
                and unparse(n.targets[0].value).startswith('self.') and unparse(n.targets[0].value)[5:] in CACHES:
            v = n.value
            src = v.func.value if isinstance(v, ast.Call) and isinstance(v.func, ast.Attribute) and v.func.attr == 'copy' else v
            stores[unparse(n.targets[0].value)[5:]] = (unparse(src), unparse(n.targets[0].slice), n)
    for cname in CACHES:
        if cname not in stores:
            raise AnalysisError('Lij: cache %s is never stored' % cname)
        if cname not in reads:
            rep.ob('cache-key-coherence', mod, stores[cname][2], 'cache %s is stored but never read back in Lij' % cname, False,
                   'values of this cache are recomputed from live state instead of being taken from the entry of the '
                   'current key', engine='flow', qual='VacancyMediated.Lij')
            continue
        rv, rk, rn = reads[cname]
        sv, sk, sn = stores[cname]
        # the stored value is the variable read on a hit, or the very expression that (re)computes it
        ok = rk == key and sk == key and (rv == sv or sv.startswith('self.GFcalc'))
        rep.ob('cache-key-coherence', mod, sn, '%s: read into %s with key %s ; stored from %s with key %s' % (cname, rv, rk, sv, sk),
               ok, '' if ok else 'the value taken from this cache on a hit is not the value stored on a miss (or the keys differ)',
               engine='flow', qual='VacancyMediated.Lij')
    # every cache variable that is used after the miss-block must be assigned inside the miss-block
    miss = None
    for n in walk_local(fn):
        if isinstance(n, ast.If) and isinstance(n.test, ast.Compare) and isinstance(n.test.ops[0], ast.Is) \
                and unparse(n.test.comparators[0]) == 'None' and unparse(n.test.left) in {v[0] for v in reads.values()}:
            miss = n
    if miss is None:
        raise AnalysisError('Lij: cache-miss block not found')
    assigned = set()
    for n in ast.walk(miss):
        if isinstance(n, ast.Assign):
            for t in n.targets:
                for x in ast.walk(t):
                    if isinstance(x, ast.Name):
                        assigned.add(x.id)
    for cname, (rv, rk, rn) in reads.items():
        ok = rv in assigned or rn.lineno > miss.end_lineno  # recomputed in the miss block, or read after it
        rep.ob('cache-key-coherence', mod, miss, 'miss block recomputes %s (cache %s)' % (rv, cname), ok,
               '' if ok else '%s stays None after a cache miss' % rv, engine='flow', qual='VacancyMediated.Lij')


def _keyhash(model, rep, mod):
    """the cache key's __eq__ is tolerant (np.allclose); what keeps different inputs in different entries is a hash over
    the *exact* bytes of every field.  A lossy hash (rounding, casting, a subset of the fields) lets a lookup reach an
    entry stored for a different input, and the tolerant __eq__ then accepts it."""
    rep.rule('cache-key-exact-hash', 'the cache key hashes the exact bytes of every field (no rounding / casting / omission)')
    ci = model.cls('OnsagerCalc', 'vacancyThermoKinetics')
    h = ci.methods.get('__hash__')
    if h is None or ci.namedtuple_fields is None:
        raise AnalysisError('anchor vanished: vacancyThermoKinetics.__hash__ / fields')
    exact = set()
    lossy = []
    for n in ast.walk(h):
        if isinstance(n, ast.Call) and isinstance(n.func, ast.Attribute) and n.func.attr == 'tobytes':
            r = unparse(n.func.value)
            for f in ci.namedtuple_fields:
                if r in ('self.%s' % f, 'self.%s.data' % f):
                    exact.add(f)
        if isinstance(n, ast.Call):
            d = (dotted(n.func) or unparse(n.func)).split('.')[-1]
            if d in ('round', 'around', 'rint', 'floor', 'ceil', 'trunc', 'astype', 'fix', 'digitize', 'float32', 'float16',
                     'int', 'int_', 'int64', 'int32'):
                lossy.append(d)
    # a generic spelling over the tuple itself -- [entry.data.tobytes() for entry in self] -- covers every field
    for n in ast.walk(h):
        if isinstance(n, (ast.ListComp, ast.GeneratorExp)) and unparse(n.generators[0].iter) == 'self' and not n.generators[0].ifs:
            v = unparse(n.generators[0].target)
            if unparse(n.elt) in ('%s.data.tobytes()' % v, '%s.tobytes()' % v):
                exact |= set(ci.namedtuple_fields)
    for f in ci.namedtuple_fields:
        ok = f in exact and not lossy
        rep.ob('cache-key-exact-hash', mod, h, 'vacancyThermoKinetics.__hash__ covers the exact bytes of %s' % f, ok,
               '' if ok else ('hash %s: a later input that differs from a cached one can find the cached entry, and the '
                              'tolerant __eq__ accepts it -- Lij then returns values computed for another input'
                              % ('applies %s before hashing' % ', '.join(sorted(set(lossy))) if lossy else 'does not depend on ' + f)),
               engine='eqhash', qual='vacancyThermoKinetics.__hash__')


# ---------------------------------------------------------------- memo guards
def _memo(model, rep, classes=None, floor=2):
    nguards = 0
    for mname, cname in (classes or MEMO_CLASSES):
        mod = model.mod(mname)
        ci = model.cls(mname, cname)
        for meth, fn in ci.methods.items():
            if ci.kind(meth) != 'instance':
                continue
            for g in memo.find_guards(fn):
                nguards += 1
                used = memo.params_read_after(fn, g)
                for p, node in sorted(used.items()):
                    if p in g.compared_params:
                        rep.ob('memo-key-complete', mod, g.node, '%s.%s: guard `%s` compares %s' % (cname, meth, unparse(g.node.test), p),
                               True, engine='memo', qual='%s.%s' % (cname, meth))
                    elif (cname, meth, p) in MEMO_EXEMPT:
                        rep.note('%s.%s: parameter %s exempt from the memo key: %s' % (cname, meth, p, MEMO_EXEMPT[(cname, meth, p)]))
                    else:
                        rep.ob('memo-key-complete', mod, g.node, '%s.%s: guard `%s` ignores parameter %s' % (cname, meth, unparse(g.node.test), p),
                               False, 'the skipped body depends on %s but the guard returns early whatever its value: a call that '
                                      'differs only in %s gets the previous result/state' % (p, p), engine='memo',
                               qual='%s.%s' % (cname, meth))
                # identity keys
                for cmp_ in [n for n in ast.walk(g.node.test) if isinstance(n, ast.Compare) and len(n.ops) == 1
                             and isinstance(n.ops[0], (ast.Eq, ast.Is))]:
                    sides = [cmp_.left, cmp_.comparators[0]]
                    for a, b in (sides, sides[::-1]):
                        if isinstance(a, ast.Name) and a.id in PARAM_TYPES and isinstance(b, ast.Attribute) \
                                and isinstance(b.value, ast.Name) and b.value.id == fn.args.args[0].arg:
                            tm, tc = PARAM_TYPES[a.id]
                            tci = model.cls(tm, tc)
                            has_eq = any('__eq__' in c.methods for c in model.mro(tci))
                            if has_eq:
                                continue
                            muts = memo.inplace_mutators(model, tci)
                            compared_attrs = set()
                            for x in ast.walk(g.node.test):
                                if isinstance(x, ast.Attribute) and isinstance(x.value, ast.Name) and x.value.id == a.id:
                                    compared_attrs.add(x.attr)
                            uncovered = sorted(m for m, attrs in muts.items() if not (attrs & compared_attrs))
                            rep.ob('memo-identity-key', mod, g.node,
                                   '%s.%s: guard `%s` keyed on the identity of a %s' % (cname, meth, unparse(g.node.test), tc),
                                   not uncovered,
                                   '' if not uncovered else
                                   '%s has no __eq__, so the guard compares identity; %s rewrite the object in place without changing '
                                   'anything the guard looks at: after such a call the early return keeps stale derived data'
                                   % (tc, ', '.join('%s.%s' % (tc, m) for m in uncovered)), engine='memo',
                                   qual='%s.%s' % (cname, meth))
    rep.floor('memo guards found', nguards, floor)
    # synthetic positive example (the identity-key rule has no instance on the repaired tree)
    from ..model import attach_parents
    probe = attach_parents(ast.parse('class X:\n def generate(self, starset, t=0):\n  if starset == self.starset: return\n  self.starset = starset\n  self.t = t\n'))
    pg = memo.find_guards(probe.body[0].body[0])
    if len(pg) != 1 or 't' not in memo.params_read_after(probe.body[0].body[0], pg[0]) or 't' in pg[0].compared_params:
        raise AnalysisError('memo engine self-check failed on the synthetic identity guard')


def _invalidation(model, rep, mod, ci):
    n = 0
    for meth, fn in ci.methods.items():
        if meth in ('__init__', 'loadhdf5') or ci.kind(meth) != 'instance':
            continue
        for t in ('GFstarset', 'NGFmax'):
            writes = [x for x in walk_local(fn) if isinstance(x, ast.Attribute) and isinstance(x.ctx, ast.Store)
                      and x.attr == t and isinstance(x.value, ast.Name) and x.value.id == fn.args.args[0].arg]
            for w in writes:
                n += 1
                later = [c for c in walk_local(fn) if isinstance(c, ast.Call) and unparse(c.func) == 'self.clearcache'
                         and c.lineno > w.lineno]
                rep.ob('cache-invalidation', mod, w, 'VacancyMediated.%s rebinds %s and then clears the caches' % (meth, t),
                       bool(later), '' if later else 'cached Green-function values indexed by the old %s survive' % t,
                       engine='flow', qual='VacancyMediated.%s' % meth)
    rep.floor('cache-invalidating writers', n, 2)
    cc = ci.methods.get('clearcache')
    if cc is None:
        raise AnalysisError('anchor vanished: VacancyMediated.clearcache')
    from ..engines import parity
    cleared = set(parity.attrs_assigned_on(model, ci, cc, 'self'))
    ok = set(CACHES) <= cleared
    rep.ob('cache-invalidation', mod, cc, 'clearcache resets %s' % ', '.join(CACHES), ok,
           '' if ok else 'clearcache leaves %s populated' % ', '.join(sorted(set(CACHES) - cleared)), engine='flow')


OC = 'onsager/OnsagerCalc.py'
BREAKERS = [
    (OC, "        return L0vv.copy(), D0ss + L1ss, D0sv + L1sv, D0vv + D2vv + L1vv", "        return L0vv, D0ss + L1ss, D0sv + L1sv, D0vv + D2vv + L1vv", 'return-escape'),
    (OC, "        D2vv = D0ss.copy()", "        D2vv = D0ss", 'write-through'),
    (OC, "            Gfull = G.copy()", "            Gfull = G", 'write-through'),
    (OC, "        return L0vv.copy(), D0ss + L1ss, D0sv + L1sv, D0vv + D2vv + L1vv", "        return self.Lvvvalues[vTK], D0ss + L1ss, D0sv + L1sv, D0vv + D2vv + L1vv", 'return-escape'),
    (OC, "        bFV -= bFVmin\n", "        bFV = eneV\n        bFV -= bFVmin\n", 'write-through'),
    (OC, "        if Nthermo == getattr(self, 'Nthermo', 0): return", "        if getattr(self, 'Nthermo', 0) > 0: return", None),
    (OC, "        etav = self.etavvalues.get(vTK)\n", "        etav = self.GFcalc.biascorrection()\n", 'state-dominated-by-SetRates'),
    (OC, "            self.Lvvvalues[vTK] = L0vv\n", "            self.Lvvvalues[0] = L0vv\n", 'cache-key-coherence'),
    (OC, "        return hash(self.pre.data.tobytes() + self.betaene.data.tobytes() +", "        return hash(np.round(self.pre, 6).data.tobytes() + self.betaene.data.tobytes() +", 'cache-key-exact-hash'),
    (OC, "        # empty dictionaries to store GF values\n        self.clearcache()\n", "", 'cache-invalidation'),
    ('onsager/GFcalc.py', "        D = np.zeros((self.crys.dim, self.crys.dim))\n        for (n, l, c) in omega_Taylor_D.coefflist:",
     "        if self.D is None: self.D = np.zeros((self.crys.dim, self.crys.dim))\n        D = self.D\n        D.fill(0.)\n        for (n, l, c) in omega_Taylor_D.coefflist:", 'cache-entry-stable'),
    ('onsager/GFcalc.py', "        self.symmrate = self.SymmRates(pre, betaene, preT, betaeneT)\n", "        if getattr(self, 'lastpre', None) is pre: return\n        self.lastpre = pre\n        self.symmrate = self.SymmRates(pre, betaene, preT, betaeneT)\n",
     'memo-key-complete'),
]
NEUTRALS = [
    (OC, "        D2vv = D0ss.copy()", "        D2vv = np.array(D0ss)"),
    (OC, "            self.GFvalues[vTK] = GF.copy()", "            self.GFvalues[vTK] = GF"),
]
