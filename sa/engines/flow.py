"""
E12 ``flow`` -- def-use and statement-order helpers on the structured AST.
"""
import ast

from ..model import unparse, walk_local


def bound_names(target):
    return [n.id for n in ast.walk(target) if isinstance(n, ast.Name)]


def stale_loop_variables(fn):
    """yield (use_node, name, loop_node): a Name read inside the body of a ``for`` loop although its only
    bindings in the function are targets of *other, already finished* loops (none of which encloses the
    use).  Reading a finished loop's variable inside a later loop is the 'renamed the loop variable but
    not its use' slip."""
    params = {a.arg for a in fn.args.args + fn.args.kwonlyargs + fn.args.posonlyargs}
    if fn.args.vararg:
        params.add(fn.args.vararg.arg)
    if fn.args.kwarg:
        params.add(fn.args.kwarg.arg)
    loops = [n for n in walk_local(fn) if isinstance(n, (ast.For, ast.AsyncFor))]
    loop_bind = {}
    for lp in loops:
        for nm in bound_names(lp.target):
            loop_bind.setdefault(nm, []).append(lp)
    other_bind = set(params)
    for n in walk_local(fn):
        if isinstance(n, ast.Name) and isinstance(n.ctx, ast.Store):
            par = n
            is_loop_target = False
            p = getattr(n, '_parent', None)
            while p is not None and p is not fn:
                if isinstance(p, (ast.For, ast.AsyncFor)) and any(x is n for x in ast.walk(p.target)):
                    is_loop_target = True
                    break
                p = getattr(p, '_parent', None)
            if not is_loop_target:
                other_bind.add(n.id)
        elif isinstance(n, (ast.FunctionDef, ast.ClassDef)) and n is not fn:
            other_bind.add(n.name)
        elif isinstance(n, ast.ExceptHandler) and n.name:
            other_bind.add(n.name)
        elif isinstance(n, (ast.Import, ast.ImportFrom)):
            for a in n.names:
                other_bind.add((a.asname or a.name).split('.')[0])
        elif isinstance(n, ast.withitem) and n.optional_vars is not None:
            other_bind.update(bound_names(n.optional_vars))
    for n in walk_local(fn):
        if not (isinstance(n, ast.Name) and isinstance(n.ctx, ast.Load)):
            continue
        if n.id not in loop_bind or n.id in other_bind:
            continue
        # comprehension-local binding?
        p = getattr(n, '_parent', None)
        comp_bound = False
        enclosing_loops = []
        while p is not None and p is not fn:
            if isinstance(p, (ast.ListComp, ast.SetComp, ast.DictComp, ast.GeneratorExp)):
                for g in p.generators:
                    if n.id in bound_names(g.target):
                        comp_bound = True
            if isinstance(p, (ast.For, ast.AsyncFor)):
                enclosing_loops.append(p)
            p = getattr(p, '_parent', None)
        if comp_bound or not enclosing_loops:
            continue  # use after the loop at function level is the (legal) 'last value' idiom
        binders = loop_bind[n.id]
        if any(b in enclosing_loops for b in binders):
            # bound by an enclosing loop -- but the use must be in its body/orelse, not in its iter
            continue
        # used inside some loop, bound only by loops that do not enclose the use.  A binder that sits inside one of the
        # loops enclosing the use runs again on every iteration before the use (the search-then-use idiom with break):
        # that is not stale.
        def inside(b, lp):
            return any(x is b for x in ast.walk(lp)) and b is not lp
        if any(inside(b, lp) for b in binders for lp in enclosing_loops):
            continue
        if all(b.end_lineno < n.lineno for b in binders):
            yield n, n.id, enclosing_loops[0]


def top_stmt(fn, node):
    """the statement of fn.body that contains node."""
    n = node
    while getattr(n, '_parent', None) is not fn and n is not None:
        n = getattr(n, '_parent', None)
    return n


def order_index(fn, node):
    t = top_stmt(fn, node)
    return fn.body.index(t) if t in fn.body else -1


def unsafe_pops(fn):
    """yield (loop, call, reason) for loops that remove elements from a list while walking it forwards by index
    (or over the list itself).  Safe forms: range(len(L)-1, -1, -1), reversed(...), iterating over a copy."""
    for lp in walk_local(fn):
        if not isinstance(lp, (ast.For,)):
            continue
        targets = {n.id for n in ast.walk(lp.target) if isinstance(n, ast.Name)}
        it = unparse(lp.iter)
        for c in ast.walk(lp):
            if not (isinstance(c, ast.Call) and isinstance(c.func, ast.Attribute) and c.func.attr in ('pop', 'remove') and c.args):
                continue
            if isinstance(c.func.value, ast.Subscript):
                continue  # popping from an element of the container, not from the container walked
            lst = unparse(c.func.value)
            arg_names = {n.id for n in ast.walk(c.args[0]) if isinstance(n, ast.Name)}
            by_index = bool(arg_names & targets) and c.func.attr == 'pop'
            over_list = it == lst or it == 'enumerate(%s)' % lst
            mentions = lst in it
            if not (by_index and mentions) and not over_list:
                continue
            # the loop walks `lst` (by index or directly) and removes from it
            safe = 'reversed(' in it or (isinstance(lp.iter, ast.Call) and unparse(lp.iter.func) == 'range' and len(lp.iter.args) == 3
                                         and unparse(lp.iter.args[2]) in ('-1', '(-1)')) \
                or it in ('list(%s)' % lst, '%s.copy()' % lst, '%s[:]' % lst)
            if not safe:
                yield lp, c, 'removes from %s while iterating forwards over it (%s): the element after each removed one is skipped' % (lst, it)


def fancy_augassign(fn):
    """yield (node, index text): augmented assignment through an array-valued (non-slice) index.  numpy buffers
    `A[idx] += v`: when idx repeats an entry the update is applied once, so accumulations silently lose terms."""
    scalar = {a.arg for a in fn.args.args + fn.args.kwonlyargs}
    arrayish = set()
    for n in walk_local(fn):
        if isinstance(n, ast.For):
            it = n.iter
            from_range = isinstance(it, ast.Call) and (unparse(it.func) in ('range', 'enumerate', 'itertools.count', 'zip', 'reversed',
                                                                             'itertools.product'))
            for x in ast.walk(n.target):
                if isinstance(x, ast.Name):
                    scalar.add(x.id)
        if isinstance(n, ast.comprehension):
            for x in ast.walk(n.target):
                if isinstance(x, ast.Name):
                    scalar.add(x.id)
        if isinstance(n, ast.Assign) and len(n.targets) == 1 and isinstance(n.targets[0], ast.Name):
            v = n.value
            if isinstance(v, ast.Call) and unparse(v.func) == 'slice':
                arrayish.add(n.targets[0].id)
            elif isinstance(v, ast.Call) and (unparse(v.func).startswith('np.') and unparse(v.func).split('.')[-1] in
                                              ('array', 'arange', 'nonzero', 'where', 'argsort', 'unique', 'flatnonzero')):
                arrayish.add(n.targets[0].id)
            elif isinstance(v, (ast.List, ast.ListComp)):
                arrayish.add(n.targets[0].id)

    def array_valued(e):
        if isinstance(e, ast.Slice):
            return False  # a plain slice never repeats an index
        if isinstance(e, ast.Name):
            return e.id in arrayish and e.id not in scalar
        if isinstance(e, ast.Subscript):
            idx = e.slice.elts if isinstance(e.slice, ast.Tuple) else [e.slice]
            return any(isinstance(i, ast.Slice) or (isinstance(i, ast.Name) and i.id in arrayish) or array_valued(i) for i in idx)
        if isinstance(e, (ast.List, ast.ListComp)):
            return True
        return False

    for n in walk_local(fn):
        if isinstance(n, ast.AugAssign) and isinstance(n.target, ast.Subscript):
            idx = n.target.slice.elts if isinstance(n.target.slice, ast.Tuple) else [n.target.slice]
            bad = [unparse(i) for i in idx if array_valued(i)]
            if bad:
                yield n, ', '.join(bad)
