"""
Entry points:
  python -m sa.cli check Cxx [--tier quick|thorough]
  python -m sa.cli replay <path>
  python -m sa.cli all [--tier ...]          (convenience: every claimed property)
  python -m sa.cli warm                      (optional: pre-compute the cached normal form of the current tree)
Exit codes: 0 property held / 1 VIOLATION / 2 ANALYSIS-ERROR.
"""
import importlib
import json
import os
import sys
import traceback

from .model import Model, AnalysisError, form_for
from .report import Report

CLAIMED = ['C01', 'C02', 'C04', 'C06', 'C07', 'C10', 'C11', 'C12', 'C13', 'C14', 'C15', 'C16', 'C17', 'C18', 'C20', 'C21', 'C22',
           'C23', 'C24', 'C26', 'C27', 'C28', 'C29', 'C30', 'C31', 'C32', 'C33', 'C34', 'C35', 'C36']


def run_property(prop, tier, model=None, write=True, quiet=False):
    """returns (exit_code, Report)"""
    rep = Report(prop, tier, quiet=quiet)
    try:
        pm = importlib.import_module('sa.props.%s' % prop)
    except ModuleNotFoundError:
        print('ANALYSIS-ERROR property=%s no checker module sa/props/%s.py' % (prop, prop))
        return 2, rep
    try:
        form = form_for(prop)
        if model is None:
            model = Model(form=form)
        elif model.form != form:
            raise AnalysisError('%s reads the %s tree but was handed the %s one' % (prop, form, model.form))
        rep.tree_form = form
        rep.strict = model.pinned()
        pm.run(model, rep, tier)
        if tier == 'thorough' and write:
            # the tree verdict above is complete; the adequacy run and the package-wide cross-reference lints only add
            # evidence (they never change the verdict of the tree)
            try:
                rep.adequacy = thorough_extras(prop, model, {o.file for o in rep.obs})
            except Exception as e:  # never let the extras mask the verdict
                rep.adequacy = {'error': repr(e)}
        code = rep.finalize(write=write)
        if tier == 'thorough' and isinstance(rep.adequacy, dict) and not quiet:
            a = rep.adequacy.get('mutation_selftest', {})
            print('ADEQUACY %s: %d breaker(s) (%d caught, %d skipped), %d neutral variant(s) (%d noisy)'
                  % (prop, a.get('breakers', 0), a.get('caught', 0), a.get('skipped', 0), a.get('neutrals', 0), a.get('noisy', 0)))
            c = rep.adequacy.get('corpus') or {}
            if c:
                print('CORPUS %s: neutral refactorings %d applied / %d silent ; seeded changes recorded for this check %d / %d still caught%s'
                      % (prop, c['neutral']['applied'], c['neutral']['silent'], c['seeds']['expected'], c['seeds']['caught'],
                         (' ; noisy %s lost %s' % ([n['tree'] for n in c['neutral']['noisy']], c['seeds']['lost'])
                          if c['neutral']['noisy'] or c['seeds']['lost'] else '')))
            if (a.get('not_caught') or a.get('noisy')) and os.environ.get('SA_STRICT_ADEQUACY') == '1' and code == 0:
                print('ANALYSIS-ERROR property=%s adequacy self-test failed' % prop)
                return 2, rep
        return code, rep
    except AnalysisError as e:
        # a tree verdict reached so far is reported first, so that a violation is never masked by exit 2
        if not getattr(rep, 'strict', True) and not str(e).startswith('anchor vanished'):
            # the tree differs from the one the instance tables were confirmed on and a rule could not locate its instance:
            # the code was restructured there.  What was recognised up to this point has been judged; the rest is undecided.
            rep.undecided('%s -- the remaining rules of this check were not evaluated on this tree' % e)
            return rep.finalize(write=write), rep
        code = rep.finalize(write=write) if rep.violations() else 0
        if not quiet:
            print('ANALYSIS-ERROR property=%s %s' % (prop, e))
        return (1 if code == 1 else 2), rep
    except Exception:
        if not quiet:
            print('ANALYSIS-ERROR property=%s internal error' % prop)
            traceback.print_exc()
        return 2, rep


def thorough_extras(prop, model, files=None):
    """adequacy (in-memory breaker / neutral mutants of this property's rules) and package-wide cross-reference lints."""
    from . import mutate
    from .engines import resolve, flow
    res = mutate.selftest(prop)
    br, ne = res['breakers'], res['neutrals']
    out = {'mutation_selftest': {
        'breakers': len(br), 'caught': sum(1 for b in br if b['ok'] and b['status'] == 'applied'),
        'skipped': sum(1 for b in br if b['status'] == 'skipped'), 'not_caught': [b for b in br if not b['ok']],
        'neutrals': len(ne), 'noisy': sum(1 for n in ne if not n['ok']),
        'samples': [{'file': b['file'], 'mutation': '%s  ->  %s' % (b['old'], b['new']), 'rule_fired': b['fired']} for b in br[:6]],
        'note': 'mutants are applied to the parsed sources in memory; a mutant whose anchor text is absent from the current tree is skipped'}}
    out['corpus'] = corpus_regression(prop, model, files)
    xr = {'undefined_names': [], 'arity': [], 'stale_loop_variables': [], 'unsafe_pops': [], 'array_valued_augassign': [], 'imports': []}
    nfun = ncall = 0
    for name, mod in sorted(model.modules.items()):
        for q, n, l in resolve.undefined_names(mod):
            xr['undefined_names'].append('%s:%s %s' % (mod.relpath, q, n))
        for node, t, ok, msg in resolve.check_imports(model, mod):
            if not ok:
                xr['imports'].append('%s:%d %s' % (mod.relpath, node.lineno, t))
        for call, t, ok, msg, r in resolve.check_arity(model, mod, mod.tree):
            ncall += 1
            if not ok:
                xr['arity'].append('%s:%d %s -- %s' % (mod.relpath, call.lineno, t[:80], msg))
        for q, fn in mod.functions.items():
            nfun += 1
            for node, nm, lp in flow.stale_loop_variables(fn):
                xr['stale_loop_variables'].append('%s:%d %s %s' % (mod.relpath, node.lineno, q, nm))
            for lp, c, why in flow.unsafe_pops(fn):
                xr['unsafe_pops'].append('%s:%d %s' % (mod.relpath, lp.lineno, q))
            for node, idx in flow.fancy_augassign(fn):
                xr['array_valued_augassign'].append('%s:%d %s [%s]' % (mod.relpath, node.lineno, q, idx))
    xr['scanned'] = {'modules': len(model.modules), 'functions': nfun, 'call_sites': ncall}
    xr['note'] = 'package-wide lints, cross-reference only: they are reported here and never decide this property'
    out['cross_reference'] = xr
    return out


def _patched_sources(model, diff_path):
    """{relpath: new source} after applying a unified diff to the *current* sources (in a scratch directory under the system
    temp dir, removed at once); None when the diff does not apply to this tree."""
    import re
    import shutil
    import subprocess
    import tempfile
    text = open(diff_path, encoding='utf-8', errors='replace').read()
    files = sorted(set(re.findall(r'^\+\+\+ b/(\S+)', text, re.M)))
    d = tempfile.mkdtemp(prefix='sa-corpus-')
    try:
        for rel in files:
            try:
                src = model.read(rel)
            except OSError:
                return None
            os.makedirs(os.path.dirname(os.path.join(d, rel)), exist_ok=True)
            with open(os.path.join(d, rel), 'w', encoding='utf-8') as f:
                f.write(src)
        r = subprocess.run(['patch', '-p1', '-s', '-f', '--no-backup-if-mismatch', '-i', os.path.abspath(diff_path)], cwd=d,
                           capture_output=True, text=True)
        if r.returncode != 0:
            return None
        return {rel: open(os.path.join(d, rel), encoding='utf-8').read() for rel in files if rel.endswith('.py')}
    finally:
        shutil.rmtree(d, ignore_errors=True)


def corpus_regression(prop, model, files=None):
    """thorough tier only: the committed corpora applied to the current sources *in memory* -- every behaviour-preserving
    refactoring (neutral/*/refactor.diff) must leave this check without a violation, and every seeded change recorded as
    caught by this check (seeded/*/meta.json) must still produce one.  Patches that do not apply to the current tree are
    skipped.  Recorded in the evidence; never changes the verdict of the tree."""
    import glob
    from .report import load_known
    root = os.path.dirname(os.path.dirname(os.path.abspath(__file__)))
    pm = importlib.import_module('sa.props.%s' % prop)
    known = {k['key'] for k in load_known() if k.get('status') == 'open'}

    def verdict(overrides):
        rep = Report(prop, 'quick', quiet=True)
        rep.strict = False
        try:
            pm.run(Model(repo=model.repo, overrides=overrides, form=form_for(prop)), rep, 'quick')
        except AnalysisError:
            pass
        except Exception as e:
            return None, ['internal error %r' % e]
        return sorted({o.rule for o in rep.violations() if o.key() not in known}), getattr(rep, 'undecided_list', [])
    import re
    out = {'neutral': {'applied': 0, 'silent': 0, 'noisy': [], 'skipped': 0, 'untouched': 0},
           'seeds': {'expected': 0, 'caught': 0, 'lost': [], 'skipped': 0}}
    for diff in sorted(glob.glob(os.path.join(root, 'neutral', '*', 'refactor.diff'))):
        name = os.path.basename(os.path.dirname(diff))
        touched = set(re.findall(r'^\+\+\+ b/(\S+)', open(diff, encoding='utf-8', errors='replace').read(), re.M))
        if files and not (touched & set(files)):
            # the refactoring edits no file this check has an obligation in: its verdict is that of the tree
            out['neutral']['untouched'] += 1
            continue
        ov = _patched_sources(model, diff)
        if ov is None:
            out['neutral']['skipped'] += 1
            continue
        fired, und = verdict(ov)
        out['neutral']['applied'] += 1
        if fired:
            out['neutral']['noisy'].append({'tree': name, 'rules': fired})
        else:
            out['neutral']['silent'] += 1
    for mf in sorted(glob.glob(os.path.join(root, 'seeded', '*', 'meta.json'))):
        try:
            meta = json.load(open(mf))
        except ValueError:
            continue
        if not any(dd.get('check') == prop for dd in meta.get('detected_by', [])):
            continue
        ov = _patched_sources(model, os.path.join(os.path.dirname(mf), 'patch.diff'))
        if ov is None:
            out['seeds']['skipped'] += 1
            continue
        fired, und = verdict(ov)
        out['seeds']['expected'] += 1
        if fired:
            out['seeds']['caught'] += 1
        else:
            out['seeds']['lost'].append(meta.get('id'))
    return out


def main(argv=None):
    argv = list(sys.argv[1:] if argv is None else argv)
    if not argv:
        print(__doc__)
        return 2
    cmd = argv.pop(0)
    tier = os.environ.get('VERIF_TIER', 'quick')
    if '--tier' in argv:
        i = argv.index('--tier')
        tier = argv[i + 1]
        del argv[i:i + 2]
    if tier not in ('quick', 'thorough'):
        tier = 'quick'
    # SA_NOWRITE=1: experiment on a scratch tree (ONSAGER_REPO=...) without touching the committed evidence
    write = os.environ.get('SA_NOWRITE') != '1'
    if cmd == 'check':
        code, _ = run_property(argv[0], tier, write=write)
        return code
    if cmd == 'all':
        worst = 0
        models = {}
        for p in (argv or CLAIMED):
            f = form_for(p)
            if f not in models:
                models[f] = Model(form=f)
            code, _ = run_property(p, tier, model=models[f], write=write)
            worst = max(worst, code)
        return worst
    if cmd == 'warm':
        # optional: fill the digest-keyed cache of the normal form (sa/model.py) so that the first check does not pay for it
        try:
            Model(form='normal')
        except Exception as e:
            print('warm: %r (ignored: every check recomputes what it needs)' % (e,))
        return 0
    if cmd == 'replay':
        with open(argv[0]) as f:
            rec = json.load(f)
        code, rep = run_property(rec['property'], 'quick', write=False, quiet=True)
        hit = [o for o in rep.violations() if o.key() == rec['key']]
        if hit:
            o = hit[0]
            print('VIOLATION property=%s replay=%s' % (rec['property'], argv[0]))
            print('  %s:%s %s [%s] %s -- %s' % (o.file, o.line, o.qual, o.rule, o.construct[:200], o.msg))
            return 1
        print('not reproduced on the current tree: %s' % rec['key'])
        return 0 if code != 2 else 2
    print(__doc__)
    return 2


if __name__ == '__main__':
    sys.exit(main())
